"""C11 - mixtures keep the requested mass or volume proportions and a consistent density.

One case = one mixture tree (pvmon/gen/mixtures.py) that is executed three ways:
the *call form* (mix_by_weight / mix_by_volume, nested calls for nested groups),
the call form again with every top-level component passed as k*formula, and the
*string form* of the mixture grammar.  All three are compared with a reference
model that evaluates the tree itself (composition per unit mass, density, total
mass / thickness) from independently read masses and densities, and with each
other.  Hand-written wrappers on _mix_by_weight_pairs / _mix_by_volume_pairs
(iterator argument materialised first) check the proportion and density
postconditions on every internal call, including those of the grammar actions.

One case in five runs on a private PeriodicTable whose masses differ from the public
ones (factor 1 .. 1.5 depending on Z): the components are Formula objects built on that
table (half of the cases also give mix_by_* the table keyword, the string form always
gets it); the model uses that table's masses and the result must hold only that table's
atoms.  One case in ten is a percentage form that leaves 1e-12 .. 1e-6 percent to its
last component (quantity ratios up to 1e14 in the call form)."""
import sys

RULE = ('one case = one random mixture tree (1-6 parts per level, nesting <= 2 (quick) / 3 (thorough), parts are '
        'compounds with or without density, single elements/isotopes/ions, nested mixtures and repeated groups; '
        'absolute amounts log-uniform over 12 decades, percentages over 12 decades, one case in ten with a '
        'trace remainder of 1e-12..1e-6 percent for the last part; one case in five on a private table with other '
        'masses, with or without the table keyword) evaluated as call form, as call '
        'form with rescaled formula units, and as string form; distinct = distinct derivation shapes (modes, nesting, '
        'repeat groups, unit class per part, which quantities are zero, density tags, parenthesised top level, table and '
        'table keyword, kind of trace remainder) with '
        'numbers and compounds abstracted; every case is non-trivial (at least one quantity and one oracle comparison)')
SHARDS = {'quick': 8, 'thorough': 16}
TIMEOUT = {'quick': 600, 'thorough': 3600}
TECHNIQUE = ('runtime monitoring: tree-directed workload with a reference model of the mixture (independent masses, '
             'densities and unit tables), metamorphic relations call form == string form and f -> k*f, hand-written '
             'postcondition wrappers on _mix_by_weight_pairs/_mix_by_volume_pairs, sys.monitoring reach counters on the '
             'five mixture parse actions; private table with Z-dependent mass factors and an atom-identity check of the '
             'result; percentage literals whose float sum is exact by construction')
LEVEL_TEXT = ('Random mixture trees are run through mix_by_weight/mix_by_volume and through the formula-string grammar; '
              'composition per unit mass, per-component mass/volume shares, density, total_mass and thickness are '
              'compared to 1e-12 with a model that evaluates the tree itself, and the postconditions of the two internal '
              'mixers are checked on every call made by the grammar actions. Every unit and percent spelling of the '
              'grammar must have been accepted at least once; held means held on the trees generated. A fifth of the trees '
              'is built from Formula objects of a private table with different masses (result atoms must be that '
              "table's), a tenth leaves 1e-12..1e-6 percent to the last component, which must be present in exactly "
              'that proportion.'
              ' Added in rounds 4-7: zero volume shares of components of unknown density, twin components at two densities, clones (copy / deepcopy / pickle) of mixtures keep the recorded amount. Added in round 8: whole percentages handed over as numpy uint8/int8/int16/int64 scalars and python ints (exposed D40).')
LEVEL_NOTE = ('Trusted: the tree generator/renderer pvmon/gen/mixtures.py and pvmon/gen/formulas.py (strings are unambiguous '
              'under the documented grammar), pvmon/ref/masses.py, own unit table, CPython Fraction/float.')
ASSUMPTIONS = ['the documented grammar in doc/sphinx/guide/formula_grammar.rst plus the percent spellings of the grammar '
               'regexes are the specification of the string forms',
               'a repeated group (quantity)n inside a quantity of the same kind means the group n times',
               'quantities are plain decimals; stated percentages leave a remainder >= 1 (or exactly 0), so that '
               '100 - sum is well conditioned, or (trace-remainder cases) a remainder of 1e-12..1e-6 where each stated '
               'percentage means the double nearest to its text and every partial sum of these doubles is exact, so that '
               '100 - sum has one value under exact arithmetic and under any floating-point summation order',
               'components that are Formula objects keep their atoms: a mixture of Formula objects of a private table '
               'consists of atoms of that table, with or without the table keyword (the keyword is documented as the '
               'table used when parsing string components)',
               'volume units need a component density; 0 of a volume unit of a component without density is not generated',
               'tolerance 1e-12 relative (DESIGN 3.7)']

REL = 1e-12
_s = {}


class ModelError(Exception):
    """The generator produced a tree the model cannot evaluate (harness defect)."""


# --------------------------------------------------------------------------
# reference model
# --------------------------------------------------------------------------
# The private table 'scaled' carries every tabulated element and isotope mass multiplied by a factor that
# depends on Z (not uniform: a uniform factor would leave all mole ratios of a mixture unchanged).
TABLE_FACTORS = (1.0, 1.125, 1.25, 1.375, 1.5)


def table_factor(tab, Z):
    return TABLE_FACTORS[Z % 5] if (tab == 'scaled' and _s.get('scaled', True)) else 1.0


def _mass(k):
    """Mass of atom k on the table of the current case: tabulated mass x table factor - charge x m_e."""
    m = _s['model']
    tab = _s['cur']
    if tab == 'public':
        return m.atom_mass(k, _s['me'])
    base = m.iso[(k[0], k[1])][0] if k[1] else m.el[k[0]][0]
    return base * table_factor(tab, k[0]) - k[2] * _s['me']


def _natural_mass(k):
    return _s['model'].el[k[0]][0] * table_factor(_s['cur'], k[0]) - k[2] * _s['me']


def _atom_density(k):
    m = _s['model']
    rho = m.density[_s['symbol'][k[0]]]
    if rho is None:
        return None
    if k[1]:
        return rho * m.iso[(k[0], k[1])][0] / m.el[k[0]][0]
    return rho


def _tagged(tag, comp):
    from ..gen.mixtures import frac
    d = float(frac(tag[0]))
    if tag[1] == 'n':
        natural_per_unit_mass = sum(c * _natural_mass(k) for k, c in comp.items())
        return d / natural_per_unit_mass
    return d


def model_eval(node):
    """-> dict(comp: key -> mol per unit mass, density, amount, shares)"""
    from ..gen.mixtures import struct_fold, frac, remainder, MASS_G, VOLUME_CM3, LENGTH_M
    if node['t'] == 'c':
        den = struct_fold(node['struct'])
        total = sum(float(c) * _mass(k) for k, c in den.items())
        comp = {k: float(c) / total for k, c in den.items()}
        if node['tag']:
            rho = _tagged(node['tag'], comp)
        elif len(den) == 1:
            rho = _atom_density(next(iter(den)))
        else:
            rho = None
        return {'comp': comp, 'density': rho, 'amount': None}
    mode = node['mode']
    last = len(node['parts']) - 1
    rows = []   # (index, sub, mass weight, volume or None)
    for i, p in enumerate(node['parts']):
        sub = model_eval(p['node'])
        rho = sub['density']
        if 'rep' in p:
            n = float(frac(p['rep']))
            if mode == 'mass':
                w, v = sub['amount'] * n, None
            else:
                v = sub['amount'] * n
                w = v * rho
        elif mode in ('wt', 'vol'):
            q = float(remainder(node)) if i == last else float(frac(p['q']))
            if mode == 'wt':
                w, v = q, None
            else:
                if q and rho is None:
                    raise ModelError('volume share of a component without density')
                v, w = q, (q * rho if q else 0.0)
        elif mode == 'mass':
            if p['unit'] in MASS_G:
                w, v = float(frac(p['q']) * MASS_G[p['unit']]), None
            else:
                if rho is None:
                    raise ModelError('volume unit on a component without density')
                w, v = float(frac(p['q']) * VOLUME_CM3[p['unit']]) * rho, None
        else:
            if rho is None:
                raise ModelError('layer of a component without density')
            v = float(frac(p['q']) * LENGTH_M[p['unit']])
            w = v * rho
        rows.append((i, sub, w, v))
    live = [r for r in rows if r[2] > 0 or (r[3] or 0) > 0]
    wtot = sum(r[2] for r in live)
    comp = {}
    for _, sub, w, _v in live:
        for k, c in sub['comp'].items():
            comp[k] = comp.get(k, 0.0) + w * c / wtot
    if not live:
        rho = None
    elif mode in ('wt', 'mass'):
        if all(r[1]['density'] for r in live):
            rho = wtot / sum(r[2] / r[1]['density'] for r in live)
        else:
            rho = None
    else:
        rho = wtot / sum(r[3] for r in live)
    if node.get('tag') and live:
        rho = _tagged(node['tag'], comp)
    amount = None
    if mode == 'mass':
        amount = sum(r[2] for r in rows)
    elif mode == 'layer':
        amount = sum(r[3] for r in rows)
    shares = []
    for i, sub, w, v in rows:
        shares.append({'index': i, 'keys': sorted(sub['comp']), 'mass': w / wtot if wtot else 0.0,
                       'density': sub['density'], 'volume': v})
    return {'comp': comp, 'density': rho, 'amount': amount, 'shares': shares, 'empty': not live}


# --------------------------------------------------------------------------
# observation of a library result
# --------------------------------------------------------------------------
def observe(f):
    """(composition per unit mass by key, total model mass) of a Formula, read through .atoms."""
    from ..atoms import key as akey
    got = {}
    for a, c in f.atoms.items():
        k = akey(a)
        got[k] = got.get(k, 0) + c
    total = sum(c * _mass(k) for k, c in got.items())
    if total > 0:
        return {k: c / total for k, c in got.items() if c != 0}, total
    return {}, 0.0


def foreign_atoms(f):
    """Atoms of a result that do not live on the table of the current case."""
    from periodictable import core
    T = _s['tables'][_s['cur']]
    out = []
    for a in f.atoms:
        base = a.element if core.ision(a) else a
        if isinstance(base, core.Isotope):
            base = base.element
        if T[base.number] is not base:
            out.append(str(a))
    return sorted(out)


def compare_model(ctx, f, want, tree, label, problems):
    comp, total = observe(f)
    ctx.evaluated(what='home-table')
    foreign = foreign_atoms(f)
    if foreign:
        # reported after the proportions (appended below), which are judged with the component table's masses
        foreign = '%s: components live on the %s table but the mixture holds atoms of another table: %s' % (
            label, _s['cur'], ', '.join(foreign[:6]))
    try:
        _compare_model(ctx, f, want, tree, label, problems, comp)
    finally:
        if foreign:
            problems.append(foreign)


def _compare_model(ctx, f, want, tree, label, problems, comp):
    ctx.evaluated(what='atoms')
    if set(comp) != set(want['comp']):
        extra = sorted(set(comp) - set(want['comp']))
        missing = sorted(set(want['comp']) - set(comp))
        problems.append('%s: atoms left by a vanishing component %r / atoms missing %r' % (label, extra, missing))
        return
    for k, v in want['comp'].items():
        if not ctx.close(comp[k], v, rel=REL, name='composition.relerr'):
            problems.append('%s: %r per unit mass is %r, requested proportions give %r' % (label, k, comp[k], v))
            break
    ctx.evaluated(what='density')
    if want['density'] is None:
        if f.density is not None:
            problems.append('%s: density %r although a component density is unknown' % (label, f.density))
    elif f.density is None or not ctx.close(f.density, want['density'], rel=REL, name='density.relerr'):
        problems.append('%s: density %r, total mass over total volume is %r' % (label, f.density, want['density']))
    # per-component shares when the top-level components name pairwise disjoint atoms
    shares = want.get('shares')
    if shares and _disjoint(shares):
        got_shares = []
        for s in shares:
            ctx.evaluated(what='share')
            got_share = sum(comp.get(tuple(k), 0.0) * _mass(tuple(k)) for k in s['keys'])
            got_shares.append(got_share)
            if not ctx.close(got_share, s['mass'], rel=REL, name='share.relerr') and not (got_share == 0 == s['mass']):
                problems.append('%s: component %d holds mass share %r, requested %r' % (label, s['index'], got_share, s['mass']))
                break
        else:
            if tree['mode'] in ('vol', 'layer'):
                # volume shares (mass share / component density) are in the ratio of the stated volumes
                gv = [g / s['density'] if g else 0.0 for g, s in zip(got_shares, shares)]
                wv = [s['volume'] for s in shares]
                for g, w, s in zip(gv, wv, shares):
                    ctx.evaluated(what='volume-share')
                    if not ctx.close(g / sum(gv), w / sum(wv), rel=REL, name='volume-share.relerr'):
                        problems.append('%s: component %d holds volume share %r, requested %r'
                                        % (label, s['index'], g / sum(gv), w / sum(wv)))
                        break
        ctx.count('cases.disjoint.' + label.split(' ')[0])


def _disjoint(shares):
    seen = set()
    for s in shares:
        ks = set(map(tuple, s['keys']))
        if ks & seen:
            return False
        seen |= ks
    return True


def compare_results(ctx, f1, f2, what, problems, label):
    """Two library results that must describe the same material."""
    c1, _ = observe(f1)
    c2, _ = observe(f2)
    ctx.evaluated(what=what)
    if set(c1) != set(c2):
        problems.append('%s: atoms differ: %r vs %r' % (label, sorted(c1), sorted(c2)))
        return
    for k in c1:
        if not ctx.close(c1[k], c2[k], rel=REL, name=what + '.relerr'):
            problems.append('%s: %r per unit mass %r vs %r' % (label, k, c1[k], c2[k]))
            return
    if (f1.density is None) != (f2.density is None):
        problems.append('%s: density %r vs %r' % (label, f1.density, f2.density))
    elif f1.density is not None and not ctx.close(f1.density, f2.density, rel=REL, name=what + '.density.relerr'):
        problems.append('%s: density %r vs %r' % (label, f1.density, f2.density))


# --------------------------------------------------------------------------
# in-process postconditions
# --------------------------------------------------------------------------
def _post(kind, pairs, result, caller):
    """Proportion and density postcondition of one internal mixer call, from its own arguments."""
    n = _s['n']
    n['contract._mix_by_%s_pairs' % kind] += 1
    n['contract.caller.' + caller] += 1
    live = [(f, q) for f, q in pairs if q > 0]
    got = result.atoms
    if not live:
        if got:
            return 'no positive quantity but atoms %r' % (got,)
        return None
    want = {}
    if kind == 'weight':
        masses = [q for f, q in live]
    else:
        masses = [q * f.density for f, q in live]
    tot = sum(masses)
    for (f, q), m in zip(live, masses):
        fm = f.mass
        for a, c in f.atoms.items():
            want[a] = want.get(a, 0) + m / fm * c
    if set(got) != set(want):
        return 'atoms %r, components with a positive quantity have %r' % (sorted(map(str, got)), sorted(map(str, want)))
    rm = result.mass
    for a, w in want.items():
        g = got[a] / rm
        w = w / tot
        if abs(g - w) > REL * max(abs(g), abs(w)):
            return '%s per unit mass %r, arguments give %r' % (a, g, w)
    if kind == 'weight':
        if all(f.density for f, _ in live):
            rho = tot / sum(m / f.density for (f, _), m in zip(live, masses))
        else:
            rho = None
    else:
        rho = tot / sum(q for _, q in live)
    if rho is None:
        if result.density is not None:
            return 'density %r with an unknown component density' % (result.density,)
    elif result.density is None or abs(result.density - rho) > REL * rho:
        return 'density %r, mass over volume of the arguments is %r' % (result.density, rho)
    return None


def _caller_name():
    """Name of the nearest calling function that is one of the known entry points (the mixer may be reached
    through private helpers in a refactored tree); 'other' when there is none."""
    f = sys._getframe(2)
    depth = 0
    while f is not None and depth < 12:
        if f.f_code.co_name in CALLERS:
            return f.f_code.co_name
        f = f.f_back
        depth += 1
    return 'other'


def _install_wrappers(ctx):
    """Postcondition wrappers on the PRIVATE mixers _mix_by_weight_pairs / _mix_by_volume_pairs: optional
    instrumentation.  Absent name: skipped, the requirements on its evaluation are waived.  A call that is not
    the pinned form (one iterable of (formula, quantity) pairs) is passed through un-judged."""
    from periodictable import formulas
    from collections import Counter
    from ..gen.formulas import private
    _s['n'] = Counter()
    _s['post_failures'] = []
    Formula = formulas.Formula

    def wrap(kind, orig):
        def wrapper(*args, **kw):
            pairs = None
            if len(args) == 1 and not kw:
                try:
                    pairs = list(args[0])                # the grammar actions pass zip iterators
                    if not all(isinstance(p, (tuple, list)) and len(p) == 2 and isinstance(p[0], Formula)
                               for p in pairs):
                        args = (pairs,)
                        pairs = None
                except TypeError:
                    pairs = None
            if pairs is None:
                _s['n']['contract._mix_by_%s_pairs.unrecognised_call' % kind] += 1
                _s['n']['contract.unrecognised_call_from.' + _caller_name()] += 1
                return orig(*args, **kw)
            result = orig(pairs)
            caller = _caller_name()
            if not isinstance(result, Formula):
                _s['n']['contract._mix_by_%s_pairs.unrecognised_call' % kind] += 1
                _s['n']['contract.unrecognised_call_from.' + caller] += 1
                return result
            try:
                # the monitor's own arithmetic is done on python floats (a narrow numpy integer quantity times a
                # density would wrap around inside the monitor)
                msg = _post(kind, [(f, float(q)) for f, q in pairs], result, caller)
            except Exception as exc:                 # a crash of the postcondition itself is reported, not raised
                msg = 'postcondition could not be evaluated: %r' % (exc,)
            if msg:
                _s['post_failures'].append('_mix_by_%s_pairs called by %s: %s' % (kind, caller, msg))
            return result
        wrapper.__name__ = getattr(orig, '__name__', 'wrapper')
        wrapper.__wrapped__ = orig
        return wrapper

    _s['mixers'] = {}
    for kind, callers in MIXER_CALLERS:
        name = '_mix_by_%s_pairs' % kind
        orig = private(ctx, formulas, name, waived=['contract.caller.' + c for c in callers])
        if orig is not None and callable(orig):
            setattr(formulas, name, wrap(kind, orig))
            _s['mixers'][kind] = orig


def _drain(ctx, problems, label):
    fails = _s['post_failures']
    if fails:
        problems.append('%s: postcondition %s' % (label, fails[0]))
        del fails[:]


# which entry points reach which private pair mixer on the pinned tree
MIXER_CALLERS = (('weight', ('convert_by_weight', 'convert_by_absmass', 'mix_by_weight')),
                 ('volume', ('convert_by_volume', 'convert_by_layer', 'mix_by_volume')))
ACTIONS = ('convert_by_weight', 'convert_by_volume', 'convert_by_layer', 'convert_by_absmass', 'convert_mixture')
CALLERS = ('convert_by_weight', 'convert_by_volume', 'convert_by_layer', 'convert_by_absmass',
           'mix_by_weight', 'mix_by_volume')


def setup(ctx):
    import periodictable as pt
    from periodictable import formulas
    from ..ref.masses import MassModel
    from ..statemon import Reach
    from ..atoms import lookup
    from ..gen.mixtures import Lib, ALL_UNITS, WT_SPELLINGS, VOL_SPELLINGS
    from ..gen.formulas import private_table_with_other_masses, watch_nested
    _s['model'] = MassModel()
    _s['me'] = pt.constants.electron_mass
    _s['cur'] = 'public'
    # private table whose masses differ from the public ones (components built on it must stay on it).  No public
    # route gives a table other masses: when the private attribute behind .mass cannot be written in this tree the
    # table keeps the tabulated masses and the model uses factor 1 for it.
    _s['scaled'] = True
    T, scaled = private_table_with_other_masses('c11_scaled_%d' % ctx.shard, lambda Z: table_factor('scaled', Z))
    _s['scaled'] = scaled
    if not scaled:
        ctx.count('setup.scaled-table-unavailable')
        if not ctx.shard:
            ctx.note('the masses of a private table could not be changed through the private attribute behind '
                     '.mass (refactored source); the cases of the scaled table run on a private table with the '
                     'tabulated masses')
    _s['tables'] = {'public': pt.elements, 'scaled': T}
    _s['symbol'] = {el.number: el.symbol for el in pt.elements}
    _s['known'] = sorted(el.number for el in pt.elements
                         if el.number >= 1 and _s['model'].density.get(el.symbol) is not None)
    _install_wrappers(ctx)
    def on_table(fn, table):
        def call(*args, **kw):
            return fn(*args, table=table, **kw)
        call.__name__ = fn.__name__
        return call

    def lookup_T(k):
        return lookup(T, k)

    def lookup_public(k):
        return lookup(pt.elements, k)
    # (table of the case, table keyword given to mix_by_*) -> entry points of the call form
    _s['libs'] = {
        ('public', False): Lib(pt.formula, pt.mix_by_weight, pt.mix_by_volume, lookup_public),
        ('public', True): Lib(on_table(pt.formula, pt.elements), on_table(pt.mix_by_weight, pt.elements),
                              on_table(pt.mix_by_volume, pt.elements), lookup_public),
        # components are Formula objects on T, nothing is left to parse: no table keyword needed
        ('scaled', False): Lib(on_table(pt.formula, T), pt.mix_by_weight, pt.mix_by_volume, lookup_T, strings_ok=False),
        ('scaled', True): Lib(on_table(pt.formula, T), on_table(pt.mix_by_weight, T), on_table(pt.mix_by_volume, T),
                              lookup_T),
    }
    reach = Reach()
    # the five mixture parse actions are nested functions of formula_grammar on the pinned tree (private names):
    # one that was renamed / moved has its reach counter and its "called the mixer from here" counter waived
    watch_nested(ctx, reach, getattr(formulas, 'formula_grammar', None), ACTIONS,
                 extra_waived={a: ['contract.caller.' + a] for a in ACTIONS if a in CALLERS})
    _s['mixers_watched'] = []
    for kind, orig in _s['mixers'].items():    # entry counters on the private mixers: evidence only, no requirement
        try:
            reach.watch(orig, '_mix_by_%s_pairs' % kind)
            _s['mixers_watched'].append(kind)
        except Exception:
            pass
    reach.start()
    _s['reach'] = reach
    if not ctx.replay:
        for name in ACTIONS:
            ctx.require('reach.' + name, 1, 'the workload must enter this grammar action')
        for name in CALLERS:
            ctx.require('contract.caller.' + name, 1, 'the mixer postcondition must have been evaluated on a call from here')
        for u in ALL_UNITS:
            ctx.require('accepted.unit.' + u, 1, 'every documented unit must have been accepted in a string at least once')
        for sp in WT_SPELLINGS + VOL_SPELLINGS + ['%']:
            ctx.require('accepted.percent.' + sp, 1, 'every percent spelling of the grammar must have been accepted at least once')
        ctx.require('accepted.repeat.mass', 1, 'a repeated mass group must have parsed')
        ctx.require('accepted.repeat.layer', 1, 'a repeated layer group must have parsed')
        ctx.require('cases.zero-quantity', 1, 'zero quantities must have been exercised')
        ctx.require('cases.zero-volume-share-without-density', 1,
                    'a zero volume share of a component of unknown density must have been exercised')
        ctx.require('cases.disjoint.call', 1, 'per-component shares need cases with pairwise disjoint atoms')
        for name in ('scaled', 'scaled.table-keyword', 'public.table-keyword'):
            ctx.require('cases.table.' + name, 1, 'components on a private table with other masses, with and without '
                        'the table keyword, must have been mixed')
        for name in ('grid', 'short'):
            ctx.require('accepted.trace-remainder.' + name, 1, 'percentage strings leaving 1e-12 .. 1e-6 percent to the '
                        'last component must have been accepted and compared')


def finish(ctx):
    _s['reach'].stop()
    _s['reach'].export(ctx)
    from ..gen.formulas import waive_unjudged
    for k, v in list(_s['n'].items()):
        ctx.count(k, v)
    from ..gen.formulas import waive_dead
    for kind, callers in MIXER_CALLERS:
        if kind in _s['mixers_watched']:
            waive_dead(ctx, '_mix_by_%s_pairs' % kind, ['contract.caller.' + c for c in callers], 'cases.mixture')
    for c in CALLERS:
        waive_unjudged(ctx, 'contract.caller.' + c, _s['n']['contract.caller.' + c],
                       _s['n']['contract.unrecognised_call_from.' + c], 'the private pair mixer reached from ' + c)


# --------------------------------------------------------------------------
# the check
# --------------------------------------------------------------------------
def _scale_factors(case):
    """Deterministic factors k for the f -> k*f relation (stored in the case)."""
    return {int(i): k for i, k in case.get('scale', {}).items()}


def _run_string(ctx, case, tree, text, want, problems, r_call):
    import periodictable as pt
    tab = case.get('table') or 'public'
    if tab != 'public' or case.get('table_kw'):
        f = pt.formula(text, table=_s['tables'][tab])
    else:
        f = pt.formula(text)
    _drain(ctx, problems, 'string form')
    compare_model(ctx, f, want, tree, 'string form', problems)
    if r_call is not None:
        compare_results(ctx, f, r_call, 'string-vs-call', problems, 'string form vs call form')
    mode = tree['mode']
    if mode == 'mass':
        ctx.evaluated(what='total_mass')
        tm = getattr(f, 'total_mass', None)
        if tm is None or not ctx.close(tm, want['amount'], rel=REL, name='total_mass.relerr'):
            problems.append('string form: total_mass %r, stated amounts add up to %r g' % (tm, want['amount']))
    elif mode == 'layer':
        ctx.evaluated(what='thickness')
        th = getattr(f, 'thickness', None)
        if th is None or not ctx.close(th, want['amount'], rel=REL, name='thickness.relerr'):
            problems.append('string form: thickness %r, stated layers add up to %r m' % (th, want['amount']))
    # the mixture through ordinary Python protocols (copy, deepcopy, pickle): the same material, with the recorded amount
    if not problems and len(text) % 3 == 0:
        import copy
        import pickle
        for how, clone in (('copy.copy', copy.copy), ('copy.deepcopy', copy.deepcopy),
                           ('pickle round trip', lambda x: pickle.loads(pickle.dumps(x)))):
            ctx.count('clones.' + how.split('.')[-1].split(' ')[0])
            g = clone(f)
            sub = []
            compare_model(ctx, g, want, tree, '%s of the string form' % how, sub)
            attr = {'mass': 'total_mass', 'layer': 'thickness'}.get(mode)
            if attr and not sub:
                ctx.evaluated(what='clone-' + attr)
                v = getattr(g, attr, None)
                if v is None or not ctx.close(v, want['amount'], rel=REL):
                    sub.append('%s of the string form: %s is %r, the original records %r'
                               % (how, attr, v, getattr(f, attr, None)))
            problems.extend(sub[:1])
    return f


def check_mixture(ctx, case):
    from ..gen import mixtures as G
    case = _unpack(case)
    tree = case['tree']
    text = G.render_top(case)
    if text != case.get('text', text):
        raise ModelError('stored text %r is not the rendering %r of the stored tree' % (case['text'], text))
    tab = case.get('table') or 'public'
    _s['cur'] = tab
    lib = _s['libs'][(tab, bool(case.get('table_kw')))]
    ctx.count('cases.table.' + tab + ('.table-keyword' if case.get('table_kw') else ''))
    del _s['post_failures'][:]
    want = model_eval(tree)
    if tree.get('fp'):
        # quantities of the call form: the stated percentages and the remainder, ratios up to 1e14
        qs = [float(G.frac(p['q'])) for p in tree['parts'][:-1]] + [float(G.remainder(tree))]
        ctx.observe('quantity.ratio.max', max(qs) / min(qs))
    feats = case.get('features', [])
    has_zero = any(p.get('q') is not None and G.frac(p['q']) == 0 for n in G.walk(tree) if n['t'] == 'm' for p in n['parts']) \
        or any(n['t'] == 'm' and n['mode'] in ('wt', 'vol') and G.remainder(n) == 0 for n in G.walk(tree))
    if has_zero:
        ctx.count('cases.zero-quantity')
        for n in G.walk(tree):
            if n['t'] == 'm' and n['mode'] == 'vol':
                last = len(n['parts']) - 1
                for i, p in enumerate(n['parts']):
                    if 'rep' in p:
                        continue
                    q = G.remainder(n) if i == last else G.frac(p['q'])
                    if q == 0 and model_eval(p['node'])['density'] is None:
                        ctx.count('cases.zero-volume-share-without-density')

    # 1. call form against the model
    problems = []
    r_call = None
    try:
        r_call, amount = G.build_call(tree, lib)
    except Exception as exc:
        if not _from_library(exc):
            raise
        ctx.violation('call form of %r raised %s: %s' % (text, type(exc).__name__, str(exc)[:200]),
                      stage='call', exc_type=type(exc).__name__, features=feats)
    if r_call is not None:
        _drain(ctx, problems, 'call form')
        compare_model(ctx, r_call, want, tree, 'call form', problems)
        if problems:
            ctx.violation('%r: %s' % (text, problems[0]), stage='call', problems=problems[:4], features=feats)

        # 2. independence of the formula unit of each component
        problems = []
        scale = _scale_factors(case)
        if scale:
            r_scaled, _ = G.build_call(tree, lib, scale=scale)
            _drain(ctx, problems, 'rescaled call form')
            compare_results(ctx, r_scaled, r_call, 'rescale', problems, 'components passed as k*f')
            if problems:
                ctx.violation('%r: %s' % (text, problems[0]), stage='rescale', problems=problems[:4],
                              scale=case.get('scale'), features=feats)

    # 3. string form against the model and the call form
    problems = []
    try:
        _run_string(ctx, case, tree, text, want, problems, r_call)
    except Exception as exc:
        if not _from_library(exc):
            raise
        detail = dict(stage='string', exc_type=type(exc).__name__, features=feats)
        if 'litre-first' in feats:
            detail['sibling_ok'] = _sibling_ok(ctx, case, G.litre_sibling)
        elif 'count-after-percent' in feats:
            detail['sibling_ok'] = _sibling_ok(ctx, case, G.percent_sibling)
        ctx.violation('formula(%r) raised %s: %s' % (text, type(exc).__name__, str(exc)[:200]), **detail)
        del _s['post_failures'][:]
        ctx.distinct_case(case.get('shape') or G.shape_of(tree))
        return
    if problems:
        ctx.violation('%r: %s' % (text, problems[0]), stage='string', problems=problems[:4], features=feats)
    else:
        for u in G.units_used(tree):
            ctx.count(('accepted.unit.' if u in G.ALL_UNITS else 'accepted.percent.') + u)
        for n in G.walk(tree):
            if n['t'] == 'm' and any('rep' in p for p in n['parts']):
                ctx.count('accepted.repeat.' + n['mode'])
        if G.depth_of(tree) > 1:
            ctx.count('accepted.nested')
        if tree.get('fp'):
            ctx.count('accepted.trace-remainder.' + tree['fp'])
    ctx.distinct_case(case.get('shape') or G.shape_of(tree))


def _pack(case):
    """The tree travels as a JSON string: the evidence/replay writer flattens deep nesting."""
    import json
    out = dict(case)
    out['tree'] = json.dumps(case['tree'], separators=(',', ':'))
    return out


def _unpack(case):
    import json
    out = dict(case)
    if isinstance(out['tree'], str):
        out['tree'] = json.loads(out['tree'])
    return out


def _from_library(exc):
    """True if the exception passed through the library (or pyparsing on its behalf)."""
    import os
    import traceback
    from ..worker import repo_root
    root = os.path.join(repo_root(), 'periodictable') + os.sep
    for frame, _ in traceback.walk_tb(exc.__traceback__):
        if os.path.realpath(frame.f_code.co_filename).startswith(root):
            return True
    return False


def _sibling_ok(ctx, case, transform):
    """The same tree with the triggering token respelled (opening 'L' -> 'mL'; '%' / '%wt' before
    a count-led compound -> 'wt%') must parse and satisfy its own model."""
    from ..gen import mixtures as G
    sib = {'tree': transform(case['tree']), 'wrap': case.get('wrap'), 'table': case.get('table'),
           'table_kw': case.get('table_kw')}
    if G.litre_first_nodes(sib['tree']) or G.count_after_percent_parts(sib['tree']) or G.has_layer_repeat(sib['tree']):
        return False
    problems = []
    try:
        _run_string(ctx, sib, sib['tree'], G.render_top(sib), model_eval(sib['tree']), problems, None)
    except Exception:
        del _s['post_failures'][:]
        return False
    return not problems


def check_documented(ctx, case):
    """The guide's own examples, as call forms (anchors the meaning of the string forms)."""
    import periodictable as pt
    text, kind, args = case['text'], case['call'], case['args']
    _s['cur'] = 'public'
    f = pt.formula(text)
    g = (pt.mix_by_weight if kind == 'w' else pt.mix_by_volume)(*args)
    problems = []
    _drain(ctx, problems, 'documented example')
    compare_results(ctx, f, g, 'documented', problems, 'documented example %r' % text)
    if problems:
        ctx.violation(problems[0], stage='documented')
    ctx.distinct_case(('doc', text))


CHECKS = {'mixture': check_mixture, 'documented': check_documented}

DOCUMENTED = [
    {'text': '10wt% Fe // 15% Co // Ni', 'call': 'w', 'args': ['Fe', 10, 'Co', 15, 'Ni', 75]},
    {'text': '10vol% Fe // Ni', 'call': 'v', 'args': ['Fe', 10, 'Ni', 90]},
    {'text': '5g NaCl // 50mL H2O@1', 'call': 'w', 'args': ['NaCl', 5, 'H2O@1', 50]},
    {'text': '1 um Si // 5 nm Cr // 10 nm Au', 'call': 'v', 'args': ['Si', 1000, 'Cr', 5, 'Au', 10]},
    {'text': '50%wt Co // Ti', 'call': 'w', 'args': ['Co', 2, 'Ti', 2]},
    {'text': '50vol% Co // Ti', 'call': 'v', 'args': ['Co', 2, 'Ti', 2]},
]

SCALES = [2, 3, 10, 0.5, 0.125, 7.25, 1000, 0.001, 65536, 1.0 / 3]


def generate(ctx):
    import periodictable as pt
    from ..gen.mixtures import MixtureGen
    import random
    rng = ctx.rng
    xr = random.Random('c11-table-%d-%d' % (ctx.seed, ctx.shard))     # own stream for the table dimension
    gen = MixtureGen(pt.elements, rng, _s['known'], maxdepth=3 if ctx.thorough() else 2,
                     big_counts=ctx.thorough())
    if ctx.shard == 0:
        for d in DOCUMENTED:
            yield 'documented', d
    n = ctx.scale(500, 6000)
    for j in range(n):
        r = rng.random()
        # rendering patterns that hit listed candidate defects: one per case, bounded minority
        feature = ('litre-first' if r < 0.04 else 'layer-repeat' if r < 0.12
                   else 'count-after-percent' if r < 0.16 else 'trace-remainder' if r < 0.26 else None)
        case = gen.case(feature=feature)
        # one case in five runs on the private table with other masses (half of them give mix_by_* the table
        # keyword; without it the components are passed as Formula objects built on that table)
        if xr.random() < 0.2:
            case['table'], case['table_kw'] = 'scaled', xr.random() < 0.5
        else:
            case['table'], case['table_kw'] = 'public', xr.random() < 0.1
        case['shape'] += ('/T' if case['table'] == 'scaled' else '') + ('/kw' if case['table_kw'] else '') \
            + ('/trace-' + case['tree']['fp'] if case['tree'].get('fp') else '')
        k = len(case['tree']['parts'])
        case['scale'] = {str(i): rng.choice(SCALES) for i in range(k) if rng.random() < 0.7}
        yield 'mixture', _pack(case)


def classify(rec):
    d = rec.get('detail') or {}
    case = rec.get('case') or {}
    feats = case.get('features') or []
    msg = rec.get('msg', '')
    if rec.get('check') != 'mixture' or d.get('stage') != 'string':
        return None
    # public symptoms only: the string form is rejected with an exception (whatever its type and text) although the
    # case carries exactly one triggering feature and (where a sibling exists) the respelled sibling is accepted
    if not d.get('exc_type'):
        return None
    if feats == ['layer-repeat']:
        return 'c11.repeated-layer-group'
    if feats == ['litre-first'] and d.get('sibling_ok') is True:
        return 'c11.litre-first-part'
    if feats == ['count-after-percent'] and d.get('sibling_ok') is True:
        return 'c11.count-after-percent-space'
    return None
