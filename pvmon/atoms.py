"""Atom universe helpers.  Model code identifies an atom by the triple
(Z, A or 0, charge) and never uses library objects as dictionary keys."""


def key(atom):
    """(Z, A, q) of a library atom, read through the object's own fields."""
    from periodictable import core
    q = atom.charge if core.ision(atom) else 0
    base = atom.element if core.ision(atom) else atom
    if isinstance(base, core.Isotope):
        return (base.element.number, base.isotope, q)
    return (base.number, 0, q)


def lookup(table, k):
    """Library atom for a key, through the plain indexing route."""
    Z, A, q = k
    a = table[Z]
    if A:
        a = a[A]
    if q:
        a = a.ion[q]
    return a


def elements(table, zmin=0):
    return [el for el in table if el.number >= zmin]


def universe(table, zmin=1, ions=True, isotopes=True, isotope_ions=True):
    """All keys of the table: elements, isotopes, ions, isotope ions."""
    out = []
    for el in table:
        if el.number < zmin:
            continue
        out.append((el.number, 0, 0))
        if ions:
            out.extend((el.number, 0, q) for q in el.ions)
        if isotopes:
            for A in el.isotopes:
                out.append((el.number, A, 0))
                if isotope_ions:
                    out.extend((el.number, A, q) for q in el.ions)
    return out


def render(table, k, rng=None, alias=True):
    """Formula-grammar spelling of an atom key.  D and T are used for H[2]/H[3]
    when *alias* (randomly when an rng is given)."""
    Z, A, q = k
    sym = table[Z].symbol
    if Z == 1 and A in (2, 3) and alias and (rng is None or rng.random() < 0.5):
        s = 'D' if A == 2 else 'T'
    else:
        s = sym + ('[%d]' % A if A else '')
    if q:
        mag = abs(q)
        sign = '+' if q > 0 else '-'
        if mag == 1 and (rng is None or rng.random() < 0.5):
            s += '{%s}' % sign
        else:
            s += '{%d%s}' % (mag, sign)
    return s
