"""Reader for KNOWN_FINDINGS.txt (committed, never written at run time).

  finding: property=<id> key=<mechanism-key> <what fails>
  fixed:   property=<id> <commit> key=<mechanism-key> <what failed>

Only `finding:` lines suppress anything; a `fixed:` line is documentation and
a violation that maps to its key is reported as a VIOLATION again.
"""
import os
import re

HERE = os.path.dirname(os.path.dirname(os.path.abspath(__file__)))
PATH = os.path.join(HERE, 'KNOWN_FINDINGS.txt')


def load(path=PATH):
    findings = {}  # (property, key) -> text
    fixed = {}
    if not os.path.exists(path):
        return findings, fixed
    for line in open(path):
        line = line.strip()
        if not line or line.startswith('#'):
            continue
        m = re.match(r'(finding|fixed):\s+property=(\S+)\s+(.*)$', line)
        if not m:
            continue
        kind, prop, rest = m.groups()
        k = re.search(r'key=(\S+)', rest)
        key = k.group(1) if k else None
        text = re.sub(r'key=\S+\s*', '', rest).strip()
        (findings if kind == 'finding' else fixed)[(prop, key)] = text
    return findings, fixed
