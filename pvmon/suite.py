"""Suite under contracts: run the repository's own tests with one property's
in-process contracts / monitors attached (DESIGN section 3.6).

usage: python -m pvmon.suite <PROP> <outfile>

The property's setup(ctx) attaches its contracts to the real functions, the
42 repository tests (doctests included, as pytest.ini configures) then run in
this very process, and finish(ctx) exports how often each contract was
evaluated.  A test that fails here although it passes without the contracts is
a contract firing on a path the workload generators did not drive: reported
as a violation with the pytest node id as the witness.
"""
import importlib
import json
import os
import sys

from .ctx import Ctx


class Collector(object):
    def __init__(self):
        self.failed = []
        self.passed = 0

    def pytest_runtest_logreport(self, report):
        if report.when == 'call' and report.passed:
            self.passed += 1
        if report.failed:
            self.failed.append({'nodeid': report.nodeid, 'when': report.when,
                                'text': str(report.longrepr)[-2500:]})


def main(argv):
    prop, outfile = argv[:2]
    repo = os.path.realpath(os.environ.get('VERIF_REPO', '/repo'))
    ctx = Ctx(prop, 'thorough', 0, 0, 1, replay=True)  # replay=True: no workload-share requirements
    mod = importlib.import_module('pvmon.props.' + prop.lower())
    import periodictable
    assert os.path.realpath(periodictable.__file__).startswith(repo + os.sep)
    mod.setup(ctx)
    import pytest
    col = Collector()
    os.chdir(repo)
    rc = pytest.main(['-q', '-p', 'no:cacheprovider', '-o', 'addopts=--doctest-modules --doctest-glob=*.rst',
                      '--timeout=900'], plugins=[col])
    if hasattr(mod, 'finish'):
        mod.finish(ctx)
    out = {'rc': int(rc), 'passed': col.passed, 'failed': col.failed,
           'counters': {k: v for k, v in ctx.counters.items()
                        if k.startswith(('contract.', 'reach.', 'monitor.'))}}
    with open(outfile, 'w') as fid:
        json.dump(out, fid)
    return 0


if __name__ == '__main__':
    sys.exit(main(sys.argv[1:]))
