"""One shard of one property's workload, in its own interpreter.

usage: python -m pvmon.worker <PROP> <tier> <seed> <shard> <nshards> <outfile> [replayfile]
"""
import faulthandler
import importlib
import json
import os
import sys
import traceback

from .ctx import Ctx


def repo_root():
    return os.path.realpath(os.environ.get('VERIF_REPO', '/repo'))


def library_in_traceback(tb):
    """True when some frame of the traceback is inside the periodictable package
    under test: the exception was raised by (or through) the library."""
    root = os.path.join(repo_root(), 'periodictable') + os.sep
    for frame, _ in traceback.walk_tb(tb):
        if os.path.realpath(frame.f_code.co_filename).startswith(root):
            return True
    return False


def run_one(mod, ctx, check, case):
    ctx.begin(check, case)
    try:
        mod.CHECKS[check](ctx, case)
    except Exception as exc:  # noqa
        tb = sys.exc_info()[2]
        text = ''.join(traceback.format_exception(type(exc), exc, tb))
        if library_in_traceback(tb) and not getattr(mod, 'STRICT_HARNESS', False):
            ctx.violation('unexpected exception through the library: %s: %s'
                          % (type(exc).__name__, exc), exc_type=type(exc).__name__,
                          traceback=text[-1500:])
        else:
            ctx.harness_error(text)
    ctx.cur = None


def main(argv):
    faulthandler.enable()
    prop, tier, seed, shard, nshards, outfile = argv[:6]
    replay = argv[6] if len(argv) > 6 else None
    ctx = Ctx(prop, tier, int(seed), int(shard), int(nshards), replay=bool(replay))
    if getattr(importlib.import_module('pvmon.props.' + prop.lower()), 'IMPORT_LIBRARY', True):
        import periodictable
        where = os.path.realpath(periodictable.__file__)
        if not where.startswith(repo_root() + os.sep):
            ctx.harness_error('periodictable imported from %s, not under %s' % (where, repo_root()))
            json.dump(ctx.dump(), open(outfile, 'w'))
            return 0
    mod = importlib.import_module('pvmon.props.' + prop.lower())
    ctx.classifier = getattr(mod, 'classify', None)
    try:
        if hasattr(mod, 'setup'):
            mod.setup(ctx)
        if replay:
            rec = json.load(open(replay))
            if rec['check'] != 'suite':  # 'suite' replays are run by the CLI (pvmon.suite)
                run_one(mod, ctx, rec['check'], rec['case'])
        else:
            for check, case in mod.generate(ctx):
                run_one(mod, ctx, check, case)
        if hasattr(mod, 'finish'):
            mod.finish(ctx)
    except Exception:
        ctx.harness_error(traceback.format_exc())
    with open(outfile, 'w') as fid:
        json.dump(ctx.dump(), fid)
    return 0


if __name__ == '__main__':
    sys.exit(main(sys.argv[1:]))
