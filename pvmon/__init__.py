"""pvmon - runtime monitors for pkienzle/periodictable (see /verif/DESIGN.md)."""
