"""Independent readers of the embedded mass / abundance / density tables.

Nothing here calls the library's loaders or util.parse_uncertainty; the
embedded strings are taken as data from the modules of the tree under test.
"""
import math
import re
from decimal import Decimal


def parse_unc(s):
    """value(unc) | value(unc)# | value | [nominal] | [low,high] -> (value, sigma)."""
    s = s.strip()
    if s == '':
        return None, None
    m = re.fullmatch(r'\[([0-9.]+)\]', s)
    if m:
        return float(m.group(1)), 0.0
    m = re.fullmatch(r'\[([0-9.]+),([0-9.]+)\]', s)
    if m:
        lo, hi = float(m.group(1)), float(m.group(2))
        return (hi + lo) / 2, (hi - lo) / math.sqrt(12)
    m = re.fullmatch(r'([0-9.]+)\(([0-9.]+)\)#?', s)
    if m:
        v, u = m.group(1), m.group(2)
        if '.' in u or '.' not in v:
            return float(v), float(u)
        nd = len(v.split('.')[1])
        return float(v), float(Decimal(u).scaleb(-nd))
    m = re.fullmatch(r'[0-9.]+#?', s)
    if m:
        return float(s.rstrip('#')), 0.0
    raise ValueError('unreadable uncertainty notation %r' % s)


class MassModel(object):
    """iso[(Z,A)] = (mass, unc); el[Z] = (mass, unc); abundance[Z] = {A: (percent, unc_percent)};
    density[Z] = value or None."""

    def __init__(self):
        from periodictable import mass as M, density as D, constants
        self.iso = {}
        self.symbol = {}
        last_avg = {}
        self.rows = 0
        for line in M.isotope_mass.split('\n'):
            iso, m, _p, avg = line.split(',')
            z, sym, a = iso.split('-')
            z, a = int(z), int(a)
            self.iso[(z, a)] = parse_unc(m)
            self.symbol[z] = sym
            last_avg[z] = avg
            self.rows += 1
        # the lone neutron
        self.iso[(0, 1)] = (constants.neutron_mass, constants.neutron_mass_unc)
        self.el = {0: (constants.neutron_mass, constants.neutron_mass_unc)}
        self.weight_rows = 0
        listed = {}
        for line in M.element_mass.split('\n'):
            z, sym, _name, value = line.split()[:4]
            listed[int(z)] = value
        for z in last_avg:
            v = listed.get(z, '-')
            if v != '-':
                self.weight_rows += 1
                self.el[z] = parse_unc(v)
            else:
                self.el[z] = parse_unc(last_avg[z])
        self.abundance = {}
        z = None
        self.abundance_lines = 0
        for line in M.isotope_abundance.split('\n'):
            if line[0] not in ' \t':
                z = int(line.split()[0])
                self.abundance[z] = {}
            else:
                parts = line.split()
                self.abundance[z][int(parts[0])] = parse_unc(parts[1])
                self.abundance_lines += 1
        for z, d in self.abundance.items():
            tot = sum(v[0] for v in d.values())
            self.abundance[z] = {a: (100 * v[0] / tot, 100 * v[1] / tot) for a, v in d.items()}
        # densities: dictionary literal keyed by symbol
        self.density = {}
        self.density_note = {}
        for symk, v in D.element_densities.items():
            self.density[symk] = v[0] if isinstance(v, tuple) else v
        self.isotopes = {}
        for (z, a) in self.iso:
            self.isotopes.setdefault(z, []).append(a)
        for z in self.isotopes:
            self.isotopes[z].sort()

    def natural_mass(self, Z):
        return self.el[Z][0]

    def atom_mass(self, k, electron_mass):
        """Mass of the atom key (Z, A, q): tabulated neutral mass less q electrons."""
        Z, A, q = k
        m = self.iso[(Z, A)][0] if A else self.el[Z][0]
        return m - q * electron_mass
