"""Independent reference for biomolecule sequences (property C18, used by C16 too).

The residue tables of periodictable/fasta.py are *data written as Python calls*
(`_("A", 91.5, "C3H4H[1]NO", "alanine")`, `_set_amino_acid_average('B', 'DN')`,
`_("R", "AG", "purine")`, ...).  This module reads them from the module's
**source text** with `ast` (literal arguments only) and never calls
`fasta.Molecule`, `fasta.Sequence`, `fasta._code_average`, the formula parser
or `Formula` arithmetic.  Source text is a private matter of the library: when
it is not written the way this reader expects (row builders renamed, tables
built another way) the model is built from the PUBLIC in-memory tables instead
(`fasta.AMINO_ACID_CODES`, `RNA_BASES`, `DNA_BASES`, `RNA_CODES`, `DNA_CODES`,
`CODE_TABLES`): each unambiguous residue is the table entry (atoms of its
labile formula, cell volume, charge), each ambiguity code is averaged HERE over
the residues IUPAC says it stands for.  `FastaRef.route` / `.route_note` say
which route was used.  That route is still independent of `Sequence`,
`_code_average`, the prefix dispatch and the FASTA readers, which are what the
property is about.  From the rows it computes, in exact rational
arithmetic:

* per code: atom counts of the labile formula (keys (Z, A, 0)), cell volume,
  charge; an ambiguity code is the equal-weight average of the residues its
  table row lists;
* per sequence: the sums over its codes (own clean-up: text after the first
  '*' dropped, spaces removed), the mass with H[1] -> natural H, the mass with
  H[1] -> D, the mass of the labile formula itself, and the densities
  mass / (N_A * volume) in g/cm^3 for a volume in A^3.

Atomic masses come from pvmon.ref.masses.MassModel (independent table reader).

Two pieces of outside knowledge are carried as constants, used only by the
table checks of C18 (see ASSUMPTIONS there):
IUPAC    what each ambiguity code stands for (IUPAC-IUB one-letter codes);
PINNED   a transcription of the residue rows (Perkins 1985 values as embedded
         in the pinned tree): code -> (volume, formula text, charge).
"""
import ast
import re
from fractions import Fraction

H1 = (1, 1, 0)
HNAT = (1, 0, 0)
DEUT = (1, 2, 0)

# what the ambiguity codes stand for (IUPAC-IUB 1984/1985); '' = nothing (gap / masked)
IUPAC = {
    'aa': {'B': 'DN', 'J': 'IL', 'Z': 'EQ', 'X': 'ACDEFGHIKLMNPQRSTVWY', '-': ''},
    'na': {'A': 'A', 'C': 'C', 'G': 'G', 'T': 'T', 'U': 'T',   # the tables hold uridine under T for RNA
           'R': 'AG', 'Y': 'CT', 'K': 'GT', 'M': 'AC', 'S': 'CG', 'W': 'AT',
           'B': 'CGT', 'D': 'AGT', 'H': 'ACT', 'V': 'ACG', 'N': 'ACGT', 'X': '', '-': ''},
}

# transcription of the residue rows of the pinned tree: volume / A^3, formula, charge
PINNED = {
    'aa': {
        'A': ('91.5', 'C3 H4 H[1] N O', 0), 'C': ('105.6', 'C3 H3 H[1] N O S', 0),
        'D': ('124.5', 'C4 H3 H[1] N O3', -1), 'E': ('155.1', 'C5 H5 H[1] N O3', -1),
        'F': ('203.4', 'C9 H8 H[1] N O', 0), 'G': ('66.4', 'C2 H2 H[1] N O', 0),
        'H': ('167.3', 'C6 H5 H[1]3 N3 O', 1), 'I': ('168.8', 'C6 H10 H[1] N O', 0),
        'K': ('171.3', 'C6 H9 H[1]4 N2 O', 1), 'L': ('168.8', 'C6 H10 H[1] N O', 0),
        'M': ('170.8', 'C5 H8 H[1] N O S', 0), 'N': ('135.2', 'C4 H3 H[1]3 N2 O2', 0),
        'P': ('129.3', 'C5 H7 N O', 0), 'Q': ('161.1', 'C5 H5 H[1]3 N2 O2', 0),
        'R': ('202.1', 'C6 H7 H[1]6 N4 O', 1), 'S': ('99.1', 'C3 H3 H[1]2 N O2', 0),
        'T': ('122.1', 'C4 H5 H[1]2 N O2', 0), 'V': ('141.7', 'C5 H8 H[1] N O', 0),
        'W': ('237.6', 'C11 H8 H[1]2 N2 O', 0), 'Y': ('203.6', 'C9 H7 H[1]2 N O2', 0),
    },
    'rna': {
        'A': ('299', 'C10 H8 H[1]3 N5 O6 P Na', 0), 'T': ('284', 'C9 H8 H[1]2 N2 O8 P Na', 0),
        'G': ('304', 'C10 H7 H[1]4 N5 O7 P Na', 0), 'C': ('288', 'C9 H8 H[1]3 N3 O7 P Na', 0),
    },
    'dna': {
        'A': ('289', 'C10 H9 H[1]2 N5 O5 P Na', 0), 'T': ('301', 'C10 H11 H[1] N2 O7 P Na', 0),
        'G': ('294', 'C10 H8 H[1]3 N5 O6 P Na', 0), 'C': ('278', 'C9 H9 H[1]2 N3 O6 P Na', 0),
    },
}

_TOKEN = re.compile(r'\s*([A-Z][a-z]?)(?:\[(\d+)\])?(\d+(?:\.\d+)?)?')


class RefError(Exception):
    """The reference could not read the tables (harness problem, never a verdict)."""


def read_formula(text, symbols):
    """'C3H4H[1]NO' -> {(Z, A, 0): Fraction}.  Only element symbols, an optional
    [A] isotope tag and an optional unsigned count; D is hydrogen-2."""
    atoms = {}
    pos = 0
    text = text.strip()
    while pos < len(text):
        m = _TOKEN.match(text, pos)
        if not m or m.end() == pos:
            raise RefError('cannot read formula %r at %d' % (text, pos))
        sym, iso, cnt = m.groups()
        if sym == 'D' and iso is None:
            k = DEUT
        elif sym in symbols:
            k = (symbols[sym], int(iso) if iso else 0, 0)
        else:
            raise RefError('unknown symbol %r in %r' % (sym, text))
        atoms[k] = atoms.get(k, 0) + (Fraction(cnt) if cnt else Fraction(1))
        pos = m.end()
    return atoms


def _lit(node):
    return ast.literal_eval(node)


def _rows(call):
    """Literal argument tuples of the `_(...)` calls inside dict(( ... )) / zip( ... )."""
    out = []
    for node in ast.walk(call):
        if isinstance(node, ast.Call) and isinstance(node.func, ast.Name) and node.func.id == '_':
            try:
                out.append(tuple(_lit(a) for a in node.args))
            except Exception as exc:
                raise RefError('non-literal table row: %s' % ast.dump(node)[:200]) from exc
    return out


class FastaRef(object):
    """residue[type][code] = (atoms {key: Fraction}, volume Fraction, charge Fraction);
    stands_for[type][code] = string of base codes (ambiguity rows) or the code itself."""

    def __init__(self, source=None, mass_model=None, route=None):
        """route: None = the source text when it is readable in the expected form, else the module's public
        data tables; 'source' / 'data' force one route (RefError when it is not available)."""
        from periodictable import fasta, constants
        if mass_model is None:
            from .masses import MassModel
            mass_model = MassModel()
        self.mm = mass_model
        self.NA = constants.avogadro_number
        self.symbols = {sym: z for z, sym in mass_model.symbol.items()}
        self.route = None
        self.route_note = ''
        if route in (None, 'source'):
            try:
                if source is None:
                    with open(fasta.__file__.replace('.pyc', '.py')) as fid:
                        source = fid.read()
                self.source_rows = {}
                self.nonliteral_averages = []
                self._read(ast.parse(source))
                self._build()
                self.route = 'source'
                self.route_note = ('residue rows read from the source text of fasta.py (literal arguments of the '
                                   'row-builder calls)')
            except Exception as exc:  # the source is not written the way this reader expects (refactored?)
                if route == 'source':
                    raise
                self.route_note = 'source-text route not available (%s: %s); ' % (type(exc).__name__, str(exc)[:160])
        if self.route is None:
            self._build_from_data(fasta)
            self.route = 'data'
            self.route_note += ('residues taken from the public module tables fasta.AMINO_ACID_CODES / RNA_BASES / '
                                'DNA_BASES (labile_formula.atoms, cell_volume, charge of each entry); ambiguity codes '
                                'averaged here over what IUPAC says they stand for; code sets from fasta.CODE_TABLES')

    # -- the public data tables (fallback route) ------------------------------
    def _molecule_entry(self, mol):
        """(atoms {key: Fraction}, volume, charge) of a table entry, through its public attributes."""
        from .. import atoms as A
        atoms = {}
        for a, n in mol.labile_formula.atoms.items():
            k = tuple(A.key(a))
            atoms[k] = atoms.get(k, 0) + (Fraction(n) if isinstance(n, int) else Fraction(repr(float(n))))
        return atoms, Fraction(repr(float(mol.cell_volume))), Fraction(repr(float(mol.charge)))

    def _build_from_data(self, fasta):
        """The same model from the in-memory tables.  Independent of Sequence / _code_average / the
        prefix dispatch (the mechanisms the property is about); an unambiguous residue row is the table
        entry itself, every ambiguity row is recomputed here as the equal-weight mean of base entries."""
        self.source_rows = {}
        self.nonliteral_averages = []
        self.tables, self.averages = {}, []
        try:
            aa_live, rna_b, dna_b = fasta.AMINO_ACID_CODES, fasta.RNA_BASES, fasta.DNA_BASES
            rna_c, dna_c, code_tables = fasta.RNA_CODES, fasta.DNA_CODES, fasta.CODE_TABLES
        except AttributeError as exc:
            raise RefError('public fasta table missing: %s' % exc) from exc
        aa, aa_for = {}, {}
        for code, mol in aa_live.items():
            if code not in IUPAC['aa']:
                aa[code] = self._molecule_entry(mol)
                aa_for[code] = code
        for code in aa_live:
            if code in IUPAC['aa']:
                members = IUPAC['aa'][code]
                if any(c not in aa for c in members):
                    raise RefError('amino-acid code %r stands for %r, not all of which are residue rows' % (code, members))
                aa[code] = self._average([aa[c] for c in members])
                aa_for[code] = members
                self.averages.append((code, members))
        bases = {'rna': {c: self._molecule_entry(m) for c, m in rna_b.items()},
                 'dna': {c: self._molecule_entry(m) for c, m in dna_b.items()}}
        na = {'rna': {}, 'dna': {}}
        na_for = {'rna': {}, 'dna': {}}
        for typ, live in (('rna', rna_c), ('dna', dna_c)):
            for code, mol in live.items():
                members = IUPAC['na'].get(code)
                if members is None:          # a code IUPAC does not define: a row of its own
                    na[typ][code] = self._molecule_entry(mol)
                    na_for[typ][code] = code
                    continue
                if any(b not in bases[typ] for b in members):
                    raise RefError('%s code %r stands for %r, not all of which are base rows' % (typ, code, members))
                na[typ][code] = self._average([bases[typ][b] for b in members])
                na_for[typ][code] = members
        by_table = [(aa_live, ('aa', aa, aa_for), 'AMINO_ACID_CODES'), (rna_c, ('rna', na['rna'], na_for['rna']), 'RNA_CODES'),
                    (dna_c, ('dna', na['dna'], na_for['dna']), 'DNA_CODES')]
        self.residue, self.stands_for, self.family, self.code_table_names = {}, {}, {}, {}
        for typ, table in code_tables.items():
            for live, (fam, res, sf), name in by_table:
                if table is live:
                    self.residue[typ], self.stands_for[typ], self.family[typ] = res, sf, fam
                    self.code_table_names[typ] = name
                    break
            else:
                raise RefError('CODE_TABLES[%r] is not one of the three public code tables' % (typ,))
        self.bases = {'aa': {c: aa[c] for c in aa if aa_for[c] == c}, 'rna': bases['rna'], 'dna': bases['dna']}
        self.other = {}
        for name in ('NUCLEIC_ACID_COMPONENTS', 'CARBOHYDRATE_RESIDUES', 'LIPIDS'):
            self.other[name] = {}
            for mname, mol in (getattr(fasta, name, None) or {}).items():
                try:
                    self.other[name][mname] = self._molecule_entry(mol)
                except Exception:  # observation-only tables
                    pass

    # -- reading the source -------------------------------------------------
    def _read(self, tree):
        tables = {}
        averages = []          # (target, codes) in source order
        code_tables = None
        for stmt in tree.body:
            if isinstance(stmt, ast.Assign):
                names = []
                for t in stmt.targets:
                    if isinstance(t, ast.Name):
                        names.append(t.id)
                    elif isinstance(t, ast.Tuple):
                        names.append(','.join(e.id for e in t.elts if isinstance(e, ast.Name)))
                for name in names:
                    if name in ('AMINO_ACID_CODES', 'NUCLEIC_ACID_COMPONENTS', 'CARBOHYDRATE_RESIDUES',
                                'LIPIDS', 'RNA_BASES', 'DNA_BASES', 'RNA_CODES,DNA_CODES'):
                        tables[name] = _rows(stmt.value)
                    elif name == 'CODE_TABLES':
                        if not isinstance(stmt.value, ast.Dict):
                            raise RefError('CODE_TABLES is not a dict literal')
                        code_tables = {_lit(k): v.id for k, v in zip(stmt.value.keys, stmt.value.values)}
            elif isinstance(stmt, ast.Expr) and isinstance(stmt.value, ast.Call):
                f = stmt.value.func
                if isinstance(f, ast.Name) and f.id == '_set_amino_acid_average':
                    try:
                        args = [_lit(a) for a in stmt.value.args]
                        averages.append((args[0], args[1]))
                    except Exception:
                        # the member list is computed rather than written out: the reference then
                        # takes what the code stands for from the IUPAC definition
                        target = _lit(stmt.value.args[0])
                        averages.append((target, IUPAC['aa'][target]))
                        self.nonliteral_averages.append(target)
        need = ['AMINO_ACID_CODES', 'RNA_BASES', 'DNA_BASES', 'RNA_CODES,DNA_CODES']
        for n in need:
            if not tables.get(n):
                raise RefError('table %s not found in the fasta source' % n)
        if code_tables is None:
            raise RefError('CODE_TABLES not found in the fasta source')
        self.tables = tables
        self.averages = averages
        self.code_table_names = code_tables

    def _entry(self, formula_text, volume, charge=0):
        return (read_formula(formula_text, self.symbols), Fraction(str(volume)), Fraction(charge))

    @staticmethod
    def _average(entries):
        n = len(entries)
        atoms, vol, q = {}, Fraction(0), Fraction(0)
        for a, v, c in entries:
            for k, cnt in a.items():
                atoms[k] = atoms.get(k, 0) + cnt
            vol += v
            q += c
        if n:
            atoms = {k: cnt / n for k, cnt in atoms.items()}
            vol, q = vol / n, q / n
        return atoms, vol, q

    def _build(self):
        # amino acids: (code, V, formula with optional trailing +/- for the charge, name)
        aa, aa_for = {}, {}
        for row in self.tables['AMINO_ACID_CODES']:
            if len(row) != 4 or not isinstance(row[0], str) or not isinstance(row[2], str):
                raise RefError('unexpected amino-acid row %r' % (row,))
            code, vol, ftext, _name = row
            charge = 0
            if ftext.endswith('-'):
                charge, ftext = -1, ftext[:-1]
            elif ftext.endswith('+'):
                charge, ftext = +1, ftext[:-1]
            aa[code] = self._entry(ftext, vol, charge)
            aa_for[code] = code
        for target, codes in self.averages:
            aa[target] = self._average([aa[c] for c in codes])
            aa_for[target] = codes
        # nucleotides: bases (code, formula, V, name); codes (code, bases, name)
        bases = {}
        for typ, name in (('rna', 'RNA_BASES'), ('dna', 'DNA_BASES')):
            bases[typ] = {}
            for row in self.tables[name]:
                if len(row) != 4 or not isinstance(row[1], str):
                    raise RefError('unexpected base row %r' % (row,))
                code, ftext, vol, _name = row
                bases[typ][code] = self._entry(ftext, vol, 0)
        na = {'rna': {}, 'dna': {}}
        na_for = {'rna': {}, 'dna': {}}
        for row in self.tables['RNA_CODES,DNA_CODES']:
            if len(row) != 3:
                raise RefError('unexpected code row %r' % (row,))
            code, members, _name = row
            for typ in ('rna', 'dna'):
                na[typ][code] = self._average([bases[typ][b] for b in members])
                na_for[typ][code] = members
        by_name = {'AMINO_ACID_CODES': ('aa', aa, aa_for), 'RNA_CODES': ('rna', na['rna'], na_for['rna']),
                   'DNA_CODES': ('dna', na['dna'], na_for['dna'])}
        self.residue, self.stands_for, self.family = {}, {}, {}
        for typ, varname in self.code_table_names.items():
            if varname not in by_name:
                raise RefError('CODE_TABLES[%r] = %s is not a table this reference reads' % (typ, varname))
            fam, res, sf = by_name[varname]
            self.residue[typ] = res
            self.stands_for[typ] = sf
            self.family[typ] = fam
        self.bases = {'aa': {c: aa[c] for c in aa if aa_for[c] == c}, 'rna': bases['rna'], 'dna': bases['dna']}
        # other molecule tables (formula, V, name): components, carbohydrates, lipids
        self.other = {}
        for name in ('NUCLEIC_ACID_COMPONENTS', 'CARBOHYDRATE_RESIDUES', 'LIPIDS'):
            self.other[name] = {}
            for row in self.tables.get(name, []):
                if len(row) == 3:
                    ftext, vol, mname = row
                    self.other[name][mname] = self._entry(ftext, vol, 0)

    # -- masses ---------------------------------------------------------------
    def atom_mass(self, k, labile_as=None):
        """Mass of (Z, A, 0); H[1] is taken as *labile_as* (HNAT / DEUT) when given."""
        if labile_as is not None and k == H1:
            k = labile_as
        Z, A, _q = k
        return self.mm.iso[(Z, A)][0] if A else self.mm.el[Z][0]

    def mass(self, atoms, labile_as=None):
        import math
        return math.fsum(float(n) * self.atom_mass(k, labile_as) for k, n in atoms.items())

    # -- sequences --------------------------------------------------------------
    def codes(self, typ):
        return sorted(self.residue[typ])

    @staticmethod
    def clean(raw):
        """What a code string denotes: everything after the first '*' dropped, spaces ignored."""
        i = raw.find('*')
        if i >= 0:
            raw = raw[:i]
        return ''.join(ch for ch in raw if ch != ' ')

    def expected(self, typ, codes):
        """Sums over the residue codes of *codes* (already cleaned)."""
        res = self.residue[typ]
        mult = {}
        for c in codes:
            mult[c] = mult.get(c, 0) + 1
        atoms, vol, q = {}, Fraction(0), Fraction(0)
        for c, m in mult.items():
            a, v, ch = res[c]
            for k, cnt in a.items():
                atoms[k] = atoms.get(k, 0) + m * cnt
            vol += m * v
            q += m * ch
        atoms = {k: n for k, n in atoms.items() if n != 0}
        out = {'atoms': {k: float(n) for k, n in atoms.items()}, 'atoms_exact': atoms,
               'cell_volume': float(vol), 'charge': float(q),
               'mass': self.mass(atoms, HNAT), 'Dmass': self.mass(atoms, DEUT),
               'labile_mass': self.mass(atoms, None)}
        if vol > 0:
            f = 1e24 / (self.NA * float(vol))
            out['density'] = out['mass'] * f
            out['Ddensity'] = out['Dmass'] * f
            out['labile_density'] = out['labile_mass'] * f
        return out

    # -- table comparisons (C18 'tables' check) -----------------------------------
    def pinned_entry(self, typ, code):
        fam = self.family.get(typ, typ)
        row = PINNED.get(fam, {}).get(code)
        if row is None:
            return None
        vol, ftext, q = row
        return self._entry(ftext, vol, q)
