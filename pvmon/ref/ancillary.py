"""Independent readers of the five ancillary tables (property C20).

Nothing here calls a loader of the library: the embedded strings
(covalent_radius.Cordero, xsf.spectral_lines_data, magnetic_ff.CFML_DATA), the
*source text* of crystal_structure.py and the file xsf/f0_WaasKirf.dat of the tree
under test are taken as data and read with regular expressions.  The form-factor
equations are evaluated with math.exp on Python floats.

Source text is private to the library.  When crystal_structure.py does not spell
the list as one literal slot per line, the public module attribute
`crystal_structure.crystal_structures` (position = Z) is the data instead - still
independent of crystal_structure.init, the loader the property is about; the
literal of the Z = 0 radius has no public counterpart and becomes "not judged".
`Ancillary.routes` records the route per group.

Model fields

    radius[Z]            (label, r, dr)   first spin state of every numbered Cordero row
    radius_alternates    [(Z of the preceding numbered row, label, r, dr)]  rows starting with '-'
    neutron_radius       the literal assigned to table[0].covalent_radius in the loader source (or None)
    structure[Z]         dict | None      slot Z of the crystal_structures list (position = Z)
    structure_label[Z]   the '#Sym' comment of that slot
    lines[sym]           (K_alpha, K_beta1)
    magnetic[(sym, q)]   {'j0'|'j2'|'j4'|'j6'|'J': [tuple of 7 floats, ...]}  (list: duplicates in the data)
    cm[name]             (Z, a[5], c, b[5])  Cromer-Mann entry, name as in the '#S' line ('Fe', 'Fe2+', 'Cval')
"""
import math
import os
import re

FOUR_PI = 4 * math.pi
_NUM = r'[-+]?(?:\d+\.?\d*|\.\d+)(?:[eE][-+]?\d+)?'


def q_grid(n=200, qmax=30.0):
    """n points covering [0, qmax] including both ends."""
    return [qmax * i / (n - 1) for i in range(n)]


class Ancillary(object):
    def __init__(self):
        import periodictable
        from periodictable import covalent_radius, crystal_structure, xsf, magnetic_ff
        self.package_dir = os.path.dirname(os.path.abspath(periodictable.__file__))
        self.routes = {}        # group -> (route, note): which reading of the data the model is built on
        self._read_cordero(covalent_radius)
        self._read_structures(crystal_structure)
        self._read_lines(xsf.spectral_lines_data)
        self._read_cfml(magnetic_ff.CFML_DATA)
        self._read_cm(os.path.join(self.package_dir, 'xsf', 'f0_WaasKirf.dat'))
        self._ref = {}

    # -- Cordero covalent radii ------------------------------------------
    def _read_cordero(self, module):
        self.radius = {}
        self.radius_alternates = []
        self.cordero_rows = 0
        row = re.compile(r'^\s*(\d+|-)\s+([A-Z][A-Za-z0-9.]*)\s+(%s)(?:\s+(%s)\s+(\d+))?\s*$' % (_NUM, _NUM))
        last = None
        for line in module.Cordero.split('\n'):
            if not line.strip():
                continue
            m = row.match(line)
            if not m:
                raise ValueError('unreadable Cordero row %r' % line)
            self.cordero_rows += 1
            r = float(m.group(3))
            dr = float(m.group(4)) / 100. if m.group(4) is not None else 0.0   # column unit is 0.01 angstrom
            if m.group(1) == '-':
                # an alternate spin state of the element of the preceding numbered row
                self.radius_alternates.append((last, m.group(2), r, dr))
                continue
            last = int(m.group(1))
            if last in self.radius:
                raise ValueError('Cordero row for Z=%d appears twice' % last)
            self.radius[last] = (m.group(2), r, dr)
        # the neutron's radius is a literal of the loader, not a table row: readable from the source text only
        # (private; optional).  None = not readable: the Z = 0 radius is then not judged (no public data holds it).
        self.neutron_radius = None
        try:
            with open(module.__file__.replace('.pyc', '.py'), encoding='latin-1') as fid:
                src = fid.read()
            hits = set(re.findall(r'table\[0\]\.covalent_radius\s*=\s*(%s)' % _NUM, src))
            if len(hits) == 1:
                self.neutron_radius = float(hits.pop())
        except Exception:  # noqa
            pass
        self.routes['neutron_radius'] = (('source', 'literal assigned to table[0].covalent_radius in covalent_radius.py')
                                         if self.neutron_radius is not None else
                                         ('unavailable', 'no single literal "table[0].covalent_radius = <number>" in the '
                                          'source of covalent_radius.py; the radius of Z = 0 is not judged'))

    # -- crystal structures ----------------------------------------------
    def _read_structures(self, module):
        """Slot Z of the crystal_structures list.  First choice: the list literal in the module SOURCE (with the
        '#Sym' comments); source text is private to the library, so when it is not written that way the public
        module attribute `crystal_structure.crystal_structures` is taken as the data (deep-copied now, before
        any loader under test runs).  `self.routes['structure']` says which."""
        try:
            self._read_structures_from_source(module)
            self.routes['structure'] = ('source', 'crystal_structures list literal read from the source text of '
                                        'crystal_structure.py')
            return
        except Exception as exc:  # noqa - refactored source: fall back to the public data
            why = '%s: %s' % (type(exc).__name__, str(exc)[:120])
        live = getattr(module, 'crystal_structures', None)
        if not isinstance(live, (list, tuple)) or not live:
            raise ValueError('crystal structures: source not readable (%s) and no public crystal_structures list' % why)
        self.structure = {}
        self.structure_label = {}
        for Z, value in enumerate(live):
            if value is not None and not isinstance(value, dict):
                raise ValueError('crystal_structures[%d] is %r, neither None nor a dict' % (Z, value))
            self.structure[Z] = None if value is None else dict(value)
        self.routes['structure'] = ('data', 'source-text route not available (%s); slots taken from the public list '
                                    'crystal_structure.crystal_structures (position = Z), copied before any loader '
                                    'of this process ran' % why)

    def _read_structures_from_source(self, module):
        with open(module.__file__.replace('.pyc', '.py'), encoding='latin-1') as fid:
            src = fid.read()
        m = re.search(r'^crystal_structures\s*=\s*\[\\?\s*\n(.*?)^def ', src, re.S | re.M)
        if not m:
            raise ValueError('crystal_structures list not found in the module source')
        structure = {}
        structure_label = {}
        slot = re.compile(r'^\s*(None|\{[^}]*\})\s*[,\]]\s*#\s*(\w+)\s*$')
        item = re.compile(r"'([^']+)'\s*:\s*(?:'([^']*)'|(%s))" % _NUM)
        Z = 0
        for line in m.group(1).split('\n'):
            if not line.strip():
                continue
            s = slot.match(line)
            if not s:
                raise ValueError('unreadable crystal structure slot %r' % line)
            if s.group(1) == 'None':
                value = None
            else:
                value = {}
                for k, text, num in item.findall(s.group(1)):
                    value[k] = text if num == '' else float(num)
                if not value:
                    raise ValueError('empty crystal structure %r' % line)
            structure[Z] = value
            structure_label[Z] = s.group(2)
            Z += 1
        if not structure:
            raise ValueError('no crystal structure slot read from the module source')
        self.structure, self.structure_label = structure, structure_label

    # -- emission lines -----------------------------------------------------
    def _read_lines(self, text):
        # two wavelength columns: K_alpha (the table already holds the Ka1/Ka2 average
        # that the documentation describes; there are no separate Ka1/Ka2 columns) and K_beta1
        self.lines = {}
        row = re.compile(r'^\s*([A-Z][a-z]?)\s+(%s)\s+(%s)\s*$' % (_NUM, _NUM))
        for line in text.split('\n'):
            if not line.strip():
                continue
            m = row.match(line)
            if not m:
                raise ValueError('unreadable emission line row %r' % line)
            if m.group(1) in self.lines:
                raise ValueError('emission line row for %s appears twice' % m.group(1))
            self.lines[m.group(1)] = (float(m.group(2)), float(m.group(3)))

    # -- CrysFML magnetic form factors ------------------------------------
    def _read_cfml(self, text):
        self.magnetic = {}
        self.magnetic_entries = 0
        self.magnetic_duplicates = []
        ent = re.compile(r'Magnetic_(Form|j2|j4|j6)\s*\(\s*(\d+)\s*\)\s*=\s*Magnetic_Form_Type\s*\(\s*"([^"]*)"\s*,'
                         r'\s*(?:&\s*\n)?\s*\(/([^/]*)/\)\s*\)')
        for m in ent.finditer(text):
            kind, _idx, state, vals = m.groups()
            vals = tuple(float(v) for v in vals.split(','))
            if len(vals) != 7:
                raise ValueError('CFML entry %s(%s) has %d coefficients' % (kind, state, len(vals)))
            state = state.strip()
            if kind == 'Form':
                if state[0] == 'M':
                    jn = 'j0'
                elif state[0] == 'J':
                    jn = 'J'
                else:
                    raise ValueError('CFML Magnetic_Form label %r' % state)
                state = state[1:]
            else:
                jn = kind
            s = re.fullmatch(r'([A-Z][A-Z]?)(\d)', state)
            if not s:
                raise ValueError('CFML state label %r' % state)
            sym = s.group(1)[0] + s.group(1)[1:].lower()
            key = (sym, int(s.group(2)))
            slot = self.magnetic.setdefault(key, {}).setdefault(jn, [])
            if slot:
                self.magnetic_duplicates.append((sym, key[1], jn, vals == slot[0]))
            if vals not in slot:
                slot.append(vals)
            self.magnetic_entries += 1
        crude = len(re.findall(r'=\s*Magnetic_Form_Type', text))
        if crude != self.magnetic_entries:
            raise ValueError('CFML reader matched %d of %d assignments' % (self.magnetic_entries, crude))

    # -- Cromer-Mann coefficients ------------------------------------------
    def _read_cm(self, filename):
        self.cm = {}
        self.cm_file = filename
        with open(filename) as fid:
            text = fid.read()
        block = re.compile(r'^#S\s+(\d+)\s+(\S+)[ \t]*\n#N\s+(\d+)[ \t]*\n#L\s+([^\n]*)\n([^#\n][^\n]*)\n', re.M)
        for m in block.finditer(text):
            Z, name, n, header, data = m.groups()
            cols = header.split()
            vals = [float(v) for v in data.split()]
            if len(cols) != int(n) or len(vals) != int(n):
                raise ValueError('Cromer-Mann block %s: %d labels, %d values, #N %s' % (name, len(cols), len(vals), n))
            byname = dict(zip(cols, vals))
            a = [byname['a%d' % i] for i in range(1, 6)]
            b = [byname['b%d' % i] for i in range(1, 6)]
            if name in self.cm:
                raise ValueError('Cromer-Mann entry %s appears twice' % name)
            self.cm[name] = (int(Z), a, byname['c'], b)
        crude = len(re.findall(r'^#S', text, re.M))
        if crude != len(self.cm):
            raise ValueError('Cromer-Mann reader matched %d of %d blocks' % (len(self.cm), crude))

    # -- helpers -----------------------------------------------------------------
    @staticmethod
    def cm_name(symbol, charge):
        if not charge:
            return symbol
        return '%s%d%s' % (symbol, abs(charge), '+' if charge > 0 else '-')

    @staticmethod
    def cm_split(name):
        """'Fe2+' -> ('Fe', 2); 'Cl1-' -> ('Cl', -1); 'Fe' -> ('Fe', 0); 'Cval' -> None."""
        m = re.fullmatch(r'([A-Z][a-z]?)(?:(\d)([+-]))?', name)
        if not m:
            return None
        q = int(m.group(3) + m.group(2)) if m.group(2) else 0
        return m.group(1), q

    def magnetic_charges(self, symbol):
        return sorted(q for (s, q) in self.magnetic if s == symbol)

    # -- documented equations, evaluated here ----------------------------------
    @staticmethod
    def magnetic_value(coeff, Q, order):
        """(value, sum of |terms|) of A exp(-a s^2) + B exp(-b s^2) + C exp(-c s^2) + D,
        s = Q/4pi; the orders 2, 4, 6 carry the extra factor s^2."""
        A, a, B, b, C, c, D = coeff
        s2 = (Q / FOUR_PI) ** 2
        t = (A * math.exp(-a * s2), B * math.exp(-b * s2), C * math.exp(-c * s2), D)
        v = t[0] + t[1] + t[2] + t[3]
        mag = abs(t[0]) + abs(t[1]) + abs(t[2]) + abs(t[3])
        if order:
            return s2 * v, s2 * mag
        return v, mag

    @staticmethod
    def cm_value(entry, Q):
        """(value, sum of |terms|) of sum a_i exp(-b_i s^2) + c, s = Q/4pi."""
        _Z, a, c, b = entry
        s2 = (Q / FOUR_PI) ** 2
        v = c
        mag = abs(c)
        for ai, bi in zip(a, b):
            t = ai * math.exp(-bi * s2)
            v += t
            mag += abs(t)
        return v, mag

    def magnetic_ref(self, coeff, order, grid, gkey=None):
        k = ('m', coeff, bool(order), len(grid), gkey)
        if k not in self._ref:
            self._ref[k] = [self.magnetic_value(coeff, Q, order) for Q in grid]
        return self._ref[k]

    def cm_ref(self, name, grid, gkey=None):
        k = ('c', name, len(grid), gkey)
        if k not in self._ref:
            self._ref[k] = [self.cm_value(self.cm[name], Q) for Q in grid]
        return self._ref[k]
