"""Independent X-ray reference: readers of the embedded Henke tables
(`periodictable/xsf/*.nff`) and of the Waasmaier-Kirfel Cromer-Mann coefficient
file (`xsf/f0_WaasKirf.dat`), own bisect-based linear interpolation, own
compound scattering-length-density sum, own f0 evaluation.

Nothing here calls the library's loaders, `numpy.interp`, `Xray`, `xray_sld` or
`cromermann`; the data files are located through the directory of the imported
package (VERIF_REPO may be a scratch copy).  Physical constants are read from
`periodictable.constants` (data) and can be cross-pinned with `pin_constants`.

    xr = XrayModel()                 # lazy, tables are read on first use
    xr.symbols                       # {Z: symbol} of the 92 elements that have a table
    t = xr.table(26)                 # NffTable: .E (keV) .f1 (None = missing) .f2 .windows
    t.interp(8.0)                    # Interp(f1, f2, f1_defined, inside, excluded, scale1, scale2, slope...)
    xr.sld({(26,0,3): 2, (8,0,-2): 3}, density=5.2, energy=8.0)  # SldRef
    cm = CromerMannTable()           # 211 entries keyed by the file's symbols
    cm.f0('Fe2+', Q)                 # own evaluation, NaN for Q/(4 pi) > 6
    cm.entry_for(26, 2)              # 'Fe2+' or None (no borrowing)
"""
import bisect
import math
import os
import re
from collections import namedtuple

NAN = float('nan')
MISSING_F1 = -9999.0


def data_dir():
    """Directory of the x-ray data files of the periodictable tree under test."""
    import periodictable
    return os.path.join(os.path.dirname(os.path.abspath(periodictable.__file__)), 'xsf')


def ulp(x):
    return math.ulp(x) if x == x and not math.isinf(x) else 0.0


Interp = namedtuple('Interp', 'f1 f2 f1_defined inside excluded tol1 tol2 segment')


class NffTable(object):
    """One element's (E keV, f1, f2) rows.  f1 is None where the file says -9999.

    `windows` are the closed energy intervals around every place where the
    energies do not increase strictly (linear interpolation of the tabulated
    values is undefined there)."""

    def __init__(self, path):
        self.path = path
        self.E_eV, self.E, self.f1, self.f2 = [], [], [], []
        with open(path) as fid:
            lines = fid.read().split('\n')
        self.header = lines[0]
        for n, line in enumerate(lines[1:], 2):
            parts = line.split()
            if not parts:
                continue
            if len(parts) != 3:
                raise ValueError('%s line %d: expected 3 columns, got %r' % (path, n, line))
            ev, a, b = float(parts[0]), float(parts[1]), float(parts[2])
            self.E_eV.append(ev)
            self.E.append(ev / 1000.0)
            self.f1.append(None if a == MISSING_F1 else a)
            self.f2.append(b)
        if len(self.E) < 2:
            raise ValueError('%s: fewer than two rows' % path)
        self.n = len(self.E)
        self.emin, self.emax = self.E[0], self.E[-1]
        # the two obvious float conversions of eV to keV must agree at the end
        # points, otherwise "just outside" is not decidable to the last bit
        self.sharp_ends = all(ev / 1000.0 == ev * 0.001 for ev in (self.E_eV[0], self.E_eV[-1]))
        self.windows = []
        E = self.E
        for i in range(self.n - 1):
            if E[i + 1] <= E[i]:
                lo = min(E[max(i - 1, 0)], E[i + 1])
                hi = max(E[min(i + 2, self.n - 1)], E[i])
                self.windows.append((lo, hi))
        self.n_missing_f1 = sum(1 for v in self.f1 if v is None)

    def inside(self, e):
        return e == e and self.emin <= e <= self.emax

    def excluded(self, e):
        return any(lo <= e <= hi for lo, hi in self.windows)

    def segment(self, e):
        """Index j with E[j] <= e <= E[j+1] (the upper segment at a node)."""
        j = bisect.bisect_right(self.E, e) - 1
        return min(max(j, 0), self.n - 2)

    def _slope(self, col, j):
        if j < 0 or j > self.n - 2:
            return 0.0
        a, b = col[j], col[j + 1]
        if a is None or b is None:
            return 0.0
        de = self.E[j + 1] - self.E[j]
        return abs(b - a) / de if de > 0 else math.inf

    def interp(self, e, rel=1e-10, ulps=8):
        """Linear interpolation at e (keV) with the tolerance a correct
        implementation may need: rel * (largest bracketing ordinate) plus the
        change of the interpolant over `ulps` ulp of e (eV->keV conversion and
        wavelength round trips move e by an ulp or so).

        f1_defined is True only where the value of f1 is fixed by the property:
        both rows of every segment touching e carry a tabulated f1."""
        if not self.inside(e):
            return Interp(NAN, NAN, False, False, False, 0.0, 0.0, None)
        if self.excluded(e):
            return Interp(NAN, NAN, False, True, True, 0.0, 0.0, None)
        E, F1, F2 = self.E, self.f1, self.f2
        j = self.segment(e)
        e0, e1 = E[j], E[j + 1]
        t = (e - e0) / (e1 - e0)
        f2 = F2[j] + t * (F2[j + 1] - F2[j])
        touching = [j]
        if e == e0 and j > 0:
            touching.append(j - 1)
        if e == e1 and j < self.n - 2:
            touching.append(j + 1)
        rows = set()
        for s in touching:
            rows.update((s, s + 1))
        defined = all(F1[r] is not None for r in rows)
        if defined:
            f1 = F1[j] + t * (F1[j + 1] - F1[j])
            if e == e0:
                f1 = F1[j]
            elif e == e1:
                f1 = F1[j + 1]
        else:
            f1 = NAN
        if e == e0:
            f2 = F2[j]
        elif e == e1:
            f2 = F2[j + 1]
        du = ulps * ulp(e)
        near = (j - 1, j, j + 1)
        s2 = max(self._slope(F2, s) for s in near)
        tol2 = rel * max(abs(F2[j]), abs(F2[j + 1])) + du * s2
        if defined:
            s1 = max(self._slope(F1, s) for s in near)
            tol1 = rel * max(abs(F1[j]), abs(F1[j + 1])) + du * s1
        else:
            tol1 = 0.0
        return Interp(f1, f2, defined, True, False, tol1, tol2, j)

    def edges(self, jump=0.25, narrow=2e-3):
        """Indices j of segments that look like an absorption edge: f2 (or f1)
        jumps by more than `jump` of its size, or the segment is much narrower
        than its neighbours."""
        out = []
        E, F1, F2 = self.E, self.f1, self.f2
        for j in range(self.n - 1):
            de = E[j + 1] - E[j]
            if de <= 0:
                continue
            big2 = abs(F2[j + 1] - F2[j]) > jump * max(abs(F2[j]), abs(F2[j + 1]))
            big1 = (F1[j] is not None and F1[j + 1] is not None and
                    abs(F1[j + 1] - F1[j]) > jump * max(abs(F1[j]), abs(F1[j + 1]), 1.0))
            thin = de < narrow * E[j]
            if big2 or big1 or thin:
                out.append(j)
        return out


SldRef = namedtuple('SldRef', 'rho irho rho_defined inside excluded tol_rho tol_irho mass number_density')


class XrayModel(object):
    """Tables by atomic number; compound SLD by the documented equation
    sld = r_e * N_A * density / M * sum_i n_i (f1_i + i f2_i)   [1e-6/A^2 with the 1e-8 unit factor]."""

    def __init__(self, masses=None):
        from periodictable import constants
        self.dir = data_dir()
        self.r_e = constants.electron_radius          # m
        self.N_A = constants.avogadro_number          # 1/mol
        self.hc = constants.plancks_constant * constants.speed_of_light * 1e7   # keV Angstrom
        self.electron_mass = constants.electron_mass  # u
        self._masses = masses
        self._tables = {}
        files = {f[:-4] for f in os.listdir(self.dir) if f.endswith('.nff')}
        self.files = files
        if masses is None:
            from .masses import MassModel
            self._masses = MassModel()
        # element symbol by Z from the (independent) mass-table reader
        self.symbols = {z: s for z, s in self._masses.symbol.items() if s.lower() in files}
        self.unmatched_files = sorted(files - {s.lower() for s in self._masses.symbol.values()})

    @property
    def masses(self):
        return self._masses

    def has_table(self, Z):
        return Z in self.symbols

    def table(self, Z):
        if Z not in self._tables:
            self._tables[Z] = NffTable(os.path.join(self.dir, self.symbols[Z].lower() + '.nff'))
        return self._tables[Z]

    def wavelength(self, energy):
        """keV -> Angstrom, lambda = h c / E."""
        return self.hc / energy

    def energy(self, wavelength):
        return self.hc / wavelength

    def atom_mass(self, key):
        """(Z, A, q): tabulated neutral mass less q electrons; the x-ray table is the element's."""
        return self._masses.atom_mass(key, self.electron_mass)

    def formula_mass(self, comp):
        return math.fsum(n * self.atom_mass(k) for k, n in comp.items())

    def sld(self, comp, density, energy, rel=1e-10, ulps=8):
        """comp: {(Z, A, q): count}.  Returns SldRef; rho is NaN (rho_defined False)
        when some constituent's f1 is not fixed by its table at this energy;
        inside False when the energy is outside some constituent's range (all NaN)."""
        M = self.formula_mass(comp)
        N = density / M * self.N_A * 1e-8
        s1 = s2 = 0.0
        t1 = t2 = 0.0
        defined, inside, excluded = True, True, False
        for (Z, _A, _q), n in comp.items():
            r = self.table(Z).interp(energy, rel=rel, ulps=ulps)
            if not r.inside:
                inside = False
                continue
            if r.excluded:
                excluded = True
                continue
            s2 += n * r.f2
            t2 += abs(n) * r.tol2
            if r.f1_defined:
                s1 += n * r.f1
                t1 += abs(n) * r.tol1
            else:
                defined = False
        c = N * self.r_e
        if not inside or excluded:
            return SldRef(NAN, NAN, False, inside, excluded, 0.0, 0.0, M, N)
        return SldRef(c * s1 if defined else NAN, c * s2, defined, True, False,
                      abs(c) * t1, abs(c) * t2, M, N)

    def refraction(self, rho, irho, wavelength):
        """n = 1 - lambda^2/(2 pi) (rho + i irho) 1e-6; returned as (delta, beta) = 1 - n."""
        f = wavelength ** 2 / (2 * math.pi) * 1e-6
        return f * rho, f * irho


# CODATA values (2018; the tree embeds 2006 values, which differ by < 2e-7).
# Only the constants that enter the x-ray equations.  (constants.electron_mass of the
# pinned tree is 5.48577990946e-4, 3.5e-6 away from CODATA 5.4857990946e-4 - an extra
# digit; it moves an ion's mass by 2e-9 u and is not C05's business.)
CODATA = {'electron_radius': 2.8179403262e-15, 'avogadro_number': 6.02214076e23,
          'plancks_constant': 4.135667696e-15, 'speed_of_light': 299792458.0}
HC_KEV_ANGSTROM = 12.398419843


# Values published by CODATA for the same constants (1998 ... 2022 adjustments; h in eV s and N_A are
# exact since 2019).  The pinned tree carries the 2006 set.  A constant of the tree must BE one of these
# (to 1e-11), not merely be near them: a transposed digit in r_e changes every SLD by 1e-9, far above
# the 1e-10 tolerance of the calculators, and the reference would otherwise follow it.
CODATA_RELEASES = {
    'electron_radius': [2.817940285e-15, 2.817940325e-15, 2.8179402894e-15, 2.8179403267e-15,
                        2.8179403227e-15, 2.8179403262e-15, 2.8179403205e-15],
    'avogadro_number': [6.02214199e23, 6.0221415e23, 6.02214179e23, 6.02214129e23, 6.022140857e23, 6.02214076e23],
    'plancks_constant': [4.13566727e-15, 4.13566743e-15, 4.13566733e-15, 4.135667516e-15, 4.135667662e-15,
                         4.135667696e-15, 4.135667696923859e-15],
    'speed_of_light': [299792458.0],
}


def pin_constants(rel=1e-6, exact=1e-11):
    """[(name, library value, expected)] for constants farther than rel from CODATA 2018 or not equal
    (to `exact`, relative) to any published CODATA value."""
    from periodictable import constants
    bad = []
    for name, want in CODATA.items():
        got = getattr(constants, name)
        if not abs(got - want) <= rel * abs(want):
            bad.append((name, got, want))
        elif not any(abs(got - v) <= exact * abs(v) for v in CODATA_RELEASES[name]):
            bad.append((name, got, 'one of the published CODATA values %r' % (CODATA_RELEASES[name],)))
    return bad


class CromerMannTable(object):
    """Waasmaier-Kirfel coefficients: entries[symbol] = (a[5], c, b[5]), Z[symbol] from the
    `#S  Z  symbol` line.  f0(s) = c + sum a_i exp(-b_i s^2), s = sin(theta)/lambda = Q/(4 pi),
    fitted for s in [0, 6] 1/Angstrom, i.e. Q in [0, 24 pi]."""

    STOL_LIMIT = 6.0

    def __init__(self, path=None):
        self.path = path or os.path.join(data_dir(), 'f0_WaasKirf.dat')
        self.entries = {}
        self.Z = {}
        self.order = []
        with open(self.path) as fid:
            lines = fid.read().split('\n')
        i = 0
        while i < len(lines):
            m = re.match(r'#S\s+(\d+)\s+(\S+)\s*$', lines[i])
            if m:
                z, sym = int(m.group(1)), m.group(2)
                j = i + 1
                while not lines[j].startswith('#L'):
                    if lines[j].startswith('#S'):
                        raise ValueError('%s: entry %s has no #L line' % (self.path, sym))
                    j += 1
                labels = lines[j].split()[1:]
                if labels != ['a1', 'a2', 'a3', 'a4', 'a5', 'c', 'b1', 'b2', 'b3', 'b4', 'b5']:
                    raise ValueError('%s: unexpected column labels %r' % (self.path, labels))
                vals = [float(x) for x in lines[j + 1].split()]
                if len(vals) != 11:
                    raise ValueError('%s: entry %s has %d numbers' % (self.path, sym, len(vals)))
                if sym in self.entries:
                    raise ValueError('%s: duplicate entry %s' % (self.path, sym))
                self.entries[sym] = (vals[0:5], vals[5], vals[6:11])
                self.Z[sym] = z
                self.order.append(sym)
                i = j + 1
            i += 1

    @staticmethod
    def parse_symbol(sym):
        """'Fe2+' -> ('Fe', 2); 'O1-' -> ('O', -1); 'Fe' -> ('Fe', 0);
        valence-state entries ('Cval', 'Siva') -> (element, 0, 'valence')."""
        m = re.fullmatch(r'([A-Z][a-z]?)(?:(\d)([+-]))?', sym)
        if m:
            q = int(m.group(3) + m.group(2)) if m.group(2) else 0
            return m.group(1), q, 'atom' if q == 0 else 'ion'
        m = re.fullmatch(r'([A-Z][a-z]?)va?l?', sym)
        if m:
            return m.group(1), 0, 'valence'
        raise ValueError('unreadable Cromer-Mann symbol %r' % sym)

    def entry_for(self, element_symbol, charge):
        """The entry name for an element/ion, or None.  Never a neighbouring charge state."""
        name = element_symbol if not charge else '%s%d%s' % (element_symbol, abs(charge), '+' if charge > 0 else '-')
        return name if name in self.entries else None

    def electrons(self, sym):
        """Z - charge of an entry."""
        _el, q, _kind = self.parse_symbol(sym)
        return self.Z[sym] - q

    def f0_stol(self, sym, s):
        a, c, b = self.entries[sym]
        if s != s or s > self.STOL_LIMIT:
            return NAN
        return c + math.fsum(ai * math.exp(-bi * s * s) for ai, bi in zip(a, b))

    def f0(self, sym, Q):
        return self.f0_stol(sym, Q / (4 * math.pi))

    def limit(self, sym):
        """f0 at Q = 0: c + sum a."""
        a, c, _b = self.entries[sym]
        return c + math.fsum(a)
