"""Independent activation reference (C14, C15).

Two parts, neither of which calls periodictable.activation:

* ``ActivationTable`` - a reader of ``periodictable/activation.dat`` (found next
  to the imported package) built on the ``csv`` module (tab dialect, quoted
  cells).  A data row is a line whose first cell is an element symbol and whose
  second cell is an integer row index; everything else (notes, header, the
  ``xx`` sentinel) is counted and ignored.  Column meaning is taken from the
  file's own header (Index, Z, Symbol, A, isotope, % abundance, resulting
  nuclide, t1/2 + unit, isomer, %IT, reaction, fast?, thermal (b), g(T),
  resonance (b), t1/2 in hr, t1/2 as text, t1/2 of parent, cross-section (b)
  of the 2n precursor / burn-up cross-section thermal and resonance, comments).
  An empty numeric cell is 0.

* ``solve(row, ...)`` - the closed-form (Bateman) solutions of the three chain
  types, evaluated with mpmath at 80 significant digits (more when the
  cancellation demands it):

    single capture with burn-up   N1 -k1-> N2 -(k2 + lam)->        A = lam*N2
        (rows act, n,p  n,a  n,2n  n,n')
    '2n' two-step capture         N1 -k1-> N2 -k2-> N3 -lam->      A = lam*N3
                                           N2 -lam_p-> (lost)
    'b'  decay of activated parent N1 -k1-> N2 -lam_p-> N3 -lam->  A = lam*N3
        (no depletion of the target, as the module documents for "b")

  with, as documented by activation.py / ActivationEnvironment:
    effective cross section  = thermal + resonance/Cd_ratio  if Cd_ratio >= 1
                             = thermal                       otherwise
    reaction flux            = fluence/fast_ratio for a fast reaction
                               (the row is omitted when fast_ratio == 0),
                             = fluence otherwise
    second-step / burn-up rate k2 always uses the total thermal fluence
    rates per hour           = flux[n/cm2/s] * xs[b] * 1e-24 * 3600
    activity in microcurie   = atoms/s * (mass/A) * 1.6278e19
                               (the spreadsheet's N_A/3.7e4; data, not mechanism)
    rest                     A(T) = A(0) * 2**(-T/T_half)
"""
import csv
import os
import re

import mpmath

M = mpmath.mp.clone()
M.dps = 80
mpf = M.mpf
LN2 = M.log(2)
UCI = mpf('1.6278e19')     # atoms per mole per (decay/s per microcurie), as used by the spreadsheet
BARN_H = mpf('1e-24') * 3600
EPS = 2.0 ** -52

_SYMBOL = re.compile(r'[A-Z][a-z]?$')
_INT = re.compile(r'\d+$')

# (attribute, column, kind)
_COLUMNS = [
    ('index', 1, 'int'), ('Z', 2, 'int'), ('symbol', 3, 'str'), ('A', 4, 'int'), ('isotope', 5, 'str'),
    ('abundance', 6, 'num'), ('daughter', 7, 'str'), ('thalf', 8, 'str'), ('thalf_unit', 9, 'str'),
    ('isomer', 10, 'str'), ('percentIT', 11, 'num'), ('reaction', 12, 'str'), ('fast', 13, 'flag'),
    ('thermalXS', 14, 'num'), ('gT', 15, 'num'), ('resonance', 16, 'num'), ('Thalf_hrs', 17, 'num'),
    ('Thalf_str', 18, 'str'), ('Thalf_parent', 19, 'num'), ('thermalXS_parent', 20, 'num'),
    ('resonance_parent', 21, 'num'), ('comments', 22, 'str'),
]
HOURS_PER_UNIT = {'s': 1 / 3600., 'm': 1 / 60., 'h': 1., 'd': 24., 'y': 8760.}


class Row(object):
    """One reaction row.  ``pos`` is the position of the row among the rows of
    the same target nuclide, in file order (the order of isotope.neutron_activation)."""
    __slots__ = [c[0] for c in _COLUMNS] + ['pos', 'line', 'text']

    def key(self):
        return (self.Z, self.A, self.pos)

    def label(self):
        return '%s->%s(%s%s)#%d' % (self.isotope, self.daughter, self.reaction, ',fast' if self.fast else '',
                                    self.index)


def data_path():
    import periodictable
    return os.path.join(os.path.dirname(os.path.abspath(periodictable.__file__)), 'activation.dat')


class ActivationTable(object):
    def __init__(self, path=None):
        self.path = path or data_path()
        self.rows = []
        self.by_iso = {}
        self.by_index = {}
        self.ignored_lines = 0
        self.sentinel_lines = 0
        with open(self.path, newline='') as fid:
            for n, cells in enumerate(csv.reader(fid, delimiter='\t', quotechar='"'), 1):
                first = cells[0].strip() if cells else ''
                if not (_SYMBOL.match(first) and len(cells) >= 23 and _INT.match(cells[1].strip())):
                    if first == 'xx':
                        self.sentinel_lines += 1
                    self.ignored_lines += 1
                    continue
                r = Row()
                r.line = n
                r.text = {}
                for name, col, kind in _COLUMNS:
                    cell = cells[col].strip()
                    if kind == 'int':
                        v = int(cell)
                    elif kind == 'num':
                        r.text[name] = cell
                        v = float(cell) if cell else 0.0
                    elif kind == 'flag':
                        if cell not in ('y', 'n'):
                            raise ValueError('line %d: fast? cell is %r' % (n, cell))
                        v = (cell == 'y')
                    else:
                        v = cell
                    setattr(r, name, v)
                if r.symbol != first or r.isotope != '%s-%d' % (r.symbol, r.A):
                    raise ValueError('line %d: inconsistent target cells %r' % (n, cells[:6]))
                lst = self.by_iso.setdefault((r.Z, r.A), [])
                r.pos = len(lst)
                lst.append(r)
                self.rows.append(r)
                if r.index in self.by_index:
                    raise ValueError('duplicate row index %d' % r.index)
                self.by_index[r.index] = r

    def iaea_abundance(self, Z, A):
        """Percent abundance as provided in the table (0 when the nuclide has no row)."""
        lst = self.by_iso.get((Z, A))
        return lst[0].abundance if lst else 0.0

    def halflife_consistency(self):
        """|t1/2 in hr / (t1/2 * unit) - 1| per row: an observation about the data."""
        out = {}
        for r in self.rows:
            try:
                out[r.index] = abs(r.Thalf_hrs / (float(r.thalf) * HOURS_PER_UNIT[r.thalf_unit]) - 1)
            except Exception:
                out[r.index] = float('nan')
        return out


def num(x):
    """The number *x* holds, exactly, as an mpf: Python int / float, numpy integer of any width (as the
    integer it is) or numpy float (a float32 widens to double without rounding).  The chain solution is
    evaluated at the value that was passed, whatever type carried it."""
    if isinstance(x, (int, float)) or isinstance(x, type(UCI)):
        return mpf(x)
    import numpy as np
    if isinstance(x, np.integer):
        return mpf(int(x))
    if isinstance(x, np.floating):
        return mpf(float(x))
    return mpf(x)


class Solution(object):
    __slots__ = ['row', 'A0', 'lam', 'k1', 'k2', 'lam_parent', 'kind', 'U', 'V', 'kappa', 'root', 'dps']

    def at_rest(self, T):
        return self.A0 * M.exp(-self.lam * num(T))


def _separate(nodes):
    """Equal decay constants make the closed form 0/0; move one of them by 1e-30
    relative (the result changes by that order, far below every tolerance)."""
    nodes = list(nodes)
    for i in range(len(nodes)):
        for j in range(i):
            if nodes[i] == nodes[j]:
                nodes[i] = nodes[i] * (1 + mpf(10) ** (-30 - i)) if nodes[i] != 0 else mpf(10) ** (-300 - i)
    return nodes


def epithermal_factor(Cd_ratio):
    return 1 / num(Cd_ratio) if Cd_ratio >= 1 else mpf(0)


def rates(row, fluence, Cd_ratio, fast_ratio):
    """(flux, first-step cross section, k1, k2) with the documented selection rules."""
    erf = epithermal_factor(Cd_ratio)
    xs1 = mpf(row.thermalXS) + erf * mpf(row.resonance)
    xs2 = mpf(row.thermalXS_parent) + erf * mpf(row.resonance_parent)
    flux = num(fluence) / num(fast_ratio) if row.fast else num(fluence)
    return flux, xs1, flux * xs1 * BARN_H, num(fluence) * xs2 * BARN_H


def omitted(row, fast_ratio):
    return bool(row.fast and fast_ratio == 0)


def solve(row, mass, fluence, Cd_ratio, fast_ratio, exposure, _dps=None):
    """Activity (microcurie) of the row's product at the end of the irradiation,
    or None when the documented rules omit the row."""
    if omitted(row, fast_ratio):
        return None
    if _dps is None:
        _dps = 80
    old = M.dps
    M.dps = _dps
    try:
        s = Solution()
        s.row = row
        s.dps = _dps
        flux, xs1, k1, k2 = rates(row, fluence, Cd_ratio, fast_ratio)
        t = num(exposure)
        lam = M.log(2) / mpf(row.Thalf_hrs)
        root = flux * xs1 * mpf('1e-24') * num(mass) / mpf(row.A) * UCI
        s.lam, s.k1, s.k2, s.root = lam, k1, k2, root
        s.lam_parent = None
        s.U = s.V = None
        if row.reaction == 'b':
            lp = M.log(2) / mpf(row.Thalf_parent)
            s.lam_parent = lp
            lam_, lp_ = _separate([lam, lp])
            e1, e2 = lam_ * M.exp(-lp_ * t) / (lp_ - lam_), lp_ * M.exp(-lam_ * t) / (lp_ - lam_)
            val = 1 + e1 - e2
            s.A0 = root * val
            s.kappa = float((1 + abs(e1) + abs(e2)) / abs(val)) if val != 0 else float('inf')
            s.kind = 'b'
        elif row.reaction == '2n':
            lp = M.log(2) / mpf(row.Thalf_parent)
            s.lam_parent = lp
            a1, a2, a3 = _separate([k1, k2 + lp, lam])
            terms = [M.exp(-a1 * t) / ((a2 - a1) * (a3 - a1)),
                     M.exp(-a2 * t) / ((a1 - a2) * (a3 - a2)),
                     M.exp(-a3 * t) / ((a1 - a3) * (a2 - a3))]
            tot = terms[0] + terms[1] + terms[2]
            mag = abs(terms[0]) + abs(terms[1]) + abs(terms[2])
            s.kappa = float(mag / abs(tot)) if tot != 0 else float('inf')
            s.A0 = root * lam * k2 * tot
            s.kind = '2n'
        else:
            a1, a2 = _separate([k1, k2 + lam])
            s.U, s.V = k1 * t, (k2 + lam) * t
            d = M.exp(-a1 * t) - M.exp(-a2 * t)
            s.A0 = root * lam / (a2 - a1) * d
            s.kappa = float((M.exp(-a1 * t) + M.exp(-a2 * t)) / abs(d)) if d != 0 else float('inf')
            s.kind = 'burnup'
        # the working precision must exceed the cancellation by a wide margin
        if s.kappa > 10.0 ** (_dps - 40) and _dps < 1000:
            M.dps = old
            return solve(row, mass, fluence, Cd_ratio, fast_ratio, exposure, _dps=_dps * 2)
        return s
    finally:
        M.dps = old


def small_argument(sol):
    """True when both burn-up arguments are below the 1e-10 switch the module documents."""
    return sol.kind == 'burnup' and abs(sol.U) < 1e-10 and abs(sol.V) < 1e-10


def relerr(got, want):
    """|got - want| / |want| as a float (inf when want == 0 != got)."""
    w = mpf(want)
    g = mpf(got)
    if w == 0:
        return 0.0 if g == 0 else float('inf')
    return float(abs((g - w) / w))


def subtraction_model(sol, fluence, Cd_ratio):
    """Candidate values of the capture rate when it is recovered in double precision
    as (k2 + lam_p) - lam_p (the mechanism of finding c14.2n-capture-rate-subtraction):
    the double nearest that difference and its two neighbours on the grid of
    ulp(k2 + lam_p)."""
    import math
    k2 = float(sol.k2)
    lp = float(sol.lam_parent)
    a2 = k2 + lp
    u = math.ulp(a2)
    base = a2 - lp
    return [base, base + u, base - u]
