"""Independent reader of the embedded neutron tables and neutron reference calculator.

Nothing here calls nsf.init, nsf.fix_number, util.parse_uncertainty,
nsf.energy_dependent_init, nsf.neutron_wavelength, np.interp or any formula
code.  The embedded strings nsf.nsftable / nsf.nsftableI (public data) are taken
from the tree under test and read with regular expressions; the energy tables
are the public data nsf_tables.ENERGY_DEPENDENT_TABLES, cross-read from the
*source text* of nsf_tables.py where that text has the layout the reader knows
(optional: another layout only switches the cross-reading off);
physical constants are read from periodictable.constants
(data, cross-pinned by C04); masses, abundances and densities come from
pvmon.ref.masses.MassModel.

Public API (used by C07, C03; C04/C16/C17 may import it):

    m = NeutronModel()
    m.rows                      [(Z, A)] in table order (A = 0 for a natural-abundance row)
    m.row[(Z, A)]               fields of that row exactly as tabulated (no gap fill, no fallback)
    m.record(Z, A)              the record the atom must report: own row, else - for an element without
                                a natural row - the row of its first listed isotope; gap fills applied;
                                None when the atom is not in the table
    m.imag[(Z, A)]              (b_c_i, bp_i, bm_i) of the companion table
    m.energy[(Z, A)]            [(E_eV, re, im, abs)] in source order, for the 14 tabulated entries
    m.wavelength_table(Z, A)    [(wavelength, complex b)] increasing in wavelength (15 entries: the 14 + natural Lu)
    m.b_c_complex(Z, A, wavelength=None)   complex scattering length (fm)
    m.b_sigma(Z, A, wavelength)            (complex b, sigma_s barn)
    m.has_data(Z, A)            True when the documented equations can be evaluated for the atom
    m.atom_density(Z, A)        element density times mass ratio (None if unknown)
    m.reference_scattering({(Z, A, q): count}, density, wavelength)
                                -> ((sld_re, sld_im, sld_inc), (coh, abs, inc), penetration)   [floats]
    m.reference_with_floors(...) -> (seven values, seven absolute floors)   see docstring
    compare7(got7, ref7, floors7, rel=1e-10) -> list of (index, name, got, want, relerr) that disagree
    ArgumentGuard.install(nsf)  input-immutability monitor for the wavelength / energy arguments (C03, C04)

Optional instrumentation of PRIVATE parts of the library (notes/ROBUSTNESS_GUIDE.md; C03, C04, C07, C16, C17):

    anchor_missing(ctx, what, requirements, why)      waive reach requirements whose private anchor is not there
    private(ctx, owner, name, requirements)           getattr(owner, name, None) + anchor_missing when absent
    tolerant(orig, names, judged, counters, label)    *args/**kw wrapper of a private function: the call is handed
                                                      to judged(values..., _call) when its arguments can be bound to
                                                      *names*, else passed through un-judged and counted
    function_of(obj)                                  function object (with __code__) behind a callable, or None
    watch_entry / watch_lines(ctx, reach, ...)        entry / line counters that never stop a check
    waive_if_bypassed(ctx, counter, public_counter)   a private helper that the public entry points of this tree
                                                      do not enter is evidence only
"""
import bisect
import math
import re

ABSORPTION_WAVELENGTH = 1.798   # documented: sigma_a is tabulated at 1.798 A (2200 m/s)
FOUR_PI_100 = 4 * math.pi / 100

NAMES = ('sld_re', 'sld_im', 'sld_inc', 'coh_xs', 'abs_xs', 'inc_xs', 'penetration')

_NUM = re.compile(r'^(?P<lt><)?(?P<val>[-+]?(?:[0-9]+\.?[0-9]*|\.[0-9]+)(?:[eE][-+]?[0-9]+)?)'
                  r'(?:\((?P<unc>[0-9]+\.?[0-9]*|\.[0-9]+)\))?(?P<est>\*)?$')
_ROWID = re.compile(r'^(?P<Z>[0-9]+)-(?P<sym>[A-Za-z]+)(?:-(?P<A>[0-9]+))?$')
_HALFLIFE = re.compile(r'^[0-9.]+(?:[eE][-+]?[0-9]+)? [A-Za-z]+$')
_EKEY = re.compile(r'\(\s*"(?P<sym>[A-Za-z]+)"\s*,\s*(?P<A>None|[0-9]+)\s*\)\s*:\s*\[')
_EROW = re.compile(r'\[\s*([-+0-9.eE]+)\s*,\s*([-+0-9.eE]+)\s*,\s*([-+0-9.eE]+)\s*,\s*([-+0-9.eE]+)\s*\]')


def number(text):
    """'35.24(2)*' -> 35.24, '<6.0E-6' -> 6e-6, '38.(3.)' -> 38.0, '' -> None."""
    text = text.strip()
    if text == '':
        return None
    m = _NUM.match(text)
    if not m:
        raise ValueError('unreadable table number %r' % text)
    return float(m.group('val'))


def _rowid(text):
    m = _ROWID.match(text.strip())
    if not m:
        raise ValueError('unreadable row id %r' % text)
    return int(m.group('Z')), m.group('sym'), int(m.group('A') or 0)


class NeutronModel(object):
    def __init__(self, mass_model=None):
        from periodictable import nsf, nsf_tables, constants
        if mass_model is None:
            from .masses import MassModel
            mass_model = MassModel()
        self.mass = mass_model
        self.NA = constants.avogadro_number
        self.electron_mass = constants.electron_mass
        # lambda = sqrt(h^2/(2 m_n E)); h in eV s, E in meV, lambda in A (neutron_wavelength docstring)
        self.energy_factor = (constants.plancks_constant ** 2 * constants.electron_volt
                              / (2 * constants.neutron_mass * constants.atomic_mass_constant)) * 1e23
        self._read_main(nsf.nsftable)
        self._read_imag(nsf.nsftableI)
        self._read_energy(nsf_tables)
        self._build_records()
        self._build_wavelength_tables()

    # ---------------------------------------------------------------- readers
    def _read_main(self, text):
        self.rows = []
        self.row = {}
        self.symbol = {}
        self.isotope_rows = {}   # Z -> [A] in table order
        self.natural_rows = set()
        self.abundance_numbers = 0
        for line in text.split('\n'):
            if not line.strip():
                continue
            c = line.split(',')
            if len(c) != 11:
                raise ValueError('neutron table row with %d columns: %r' % (len(c), line))
            Z, sym, A = _rowid(c[0])
            p = c[1].strip()
            halflife = bool(_HALFLIFE.match(p))
            if A and p and not halflife:
                abundance = number(p)
                self.abundance_numbers += 1
            else:
                abundance = None
            flag = c[6].strip()
            if flag not in ('', 'E', '+/-'):
                raise ValueError('unknown flag %r in %r' % (flag, line))
            rec = {'Z': Z, 'A': A, 'symbol': sym, 'abundance': abundance, 'halflife': halflife,
                   'abundance_text': p, 'nuclear_spin': c[2],
                   'b_c': number(c[3]), 'bp': number(c[4]), 'bm': number(c[5]),
                   'is_energy_dependent': flag == 'E', 'flag': flag,
                   'coherent': number(c[7]), 'incoherent': number(c[8]),
                   'total': number(c[9]), 'absorption': number(c[10]),
                   'text': line, 'gapfill': ()}
            if (Z, A) in self.row:
                raise ValueError('duplicate row %r' % c[0])
            self.rows.append((Z, A))
            self.row[(Z, A)] = rec
            self.symbol[Z] = sym
            if A:
                self.isotope_rows.setdefault(Z, []).append(A)
            else:
                self.natural_rows.add(Z)
        self.nrows = len(self.rows)

    def _read_imag(self, text):
        self.imag = {}
        self.imag_rows = []
        for line in text.split('\n'):
            if not line.strip():
                continue
            c = line.split(',')
            if len(c) != 4:
                raise ValueError('imaginary table row with %d columns: %r' % (len(c), line))
            Z, sym, A = _rowid(c[0])
            self.imag[(Z, A)] = tuple(number(x) for x in c[1:])
            self.imag_rows.append((Z, A))

    def _read_energy(self, nsf_tables):
        """Energy tables: the public data nsf_tables.ENERGY_DEPENDENT_TABLES {(symbol, A | None): [[E, re, im, abs]]}
        is the specification.  Where the literal can also be read from the SOURCE TEXT of nsf_tables.py (own regular
        expressions) the two are compared (`energy_source_matches_literal`: True / False); how the module writes its
        data down is its own business, so a source that is absent or has another layout (no key found, other keys,
        other row counts) only switches that integrity check off (`energy_source_matches_literal` None,
        `energy_source_note` says why) and the in-memory data are used alone."""
        sym2z = {s: z for z, s in self.symbol.items()}
        live = {}
        order = []
        for (sym, A), rows in nsf_tables.ENERGY_DEPENDENT_TABLES.items():
            k = (sym2z[sym], int(A or 0))
            live[k] = [tuple(float(x) for x in r) for r in rows]
            order.append(k)
        from_source = None
        try:
            path = nsf_tables.__file__
            if path.endswith(('.pyc', '.pyo')):
                path = path[:-1]
            with open(path) as fid:
                src = fid.read()
            keys = list(_EKEY.finditer(src))
            from_source, source_order = {}, []
            for i, m in enumerate(keys):
                end = keys[i + 1].start() if i + 1 < len(keys) else len(src)
                body = src[m.end():end]
                rows = [tuple(float(x) for x in r.groups()) for r in _EROW.finditer(body)]
                k = (sym2z[m.group('sym')], 0 if m.group('A') == 'None' else int(m.group('A')))
                from_source[k] = rows
                source_order.append(k)
            same_layout = (bool(from_source) and set(from_source) == set(live)
                           and all(len(from_source[k]) == len(live[k]) for k in live))
            if not same_layout:
                self.energy_source_note = ('the source text of nsf_tables.py does not hold the literal in the layout the '
                                           'reader knows (%d keys found, %d in memory)' % (len(from_source), len(live)))
                from_source = None
        except Exception as exc:          # no file, unreadable, other symbols, ...: the reader is optional
            self.energy_source_note = 'the source text of nsf_tables.py could not be read (%s: %s)' % (type(exc).__name__, exc)
            from_source = None
        if from_source is not None:
            self.energy, self.energy_order = from_source, source_order
            self.energy_source = 'source text of nsf_tables.py'
            self.energy_source_note = None
            # the in-memory literal must be the same data as the source text (integrity of the reader)
            self.energy_source_matches_literal = all(sorted(live[k]) == sorted(from_source[k]) for k in live)   # same rows, any order
        else:
            self.energy, self.energy_order = live, order
            self.energy_source = 'nsf_tables.ENERGY_DEPENDENT_TABLES in memory'
            self.energy_source_matches_literal = None
        self.energy_nodes = sum(len(v) for v in self.energy.values())

    # ---------------------------------------------------------------- records
    def _build_records(self):
        """Apply the two documented gap fills and the sole-isotope fallback."""
        self.rec = {}
        for k, r in self.row.items():
            self.rec[k] = dict(r)
        xe = self.rec.get((54, 0))
        if xe is not None and xe['total'] is None and None not in (xe['coherent'], xe['incoherent']):
            xe['total'] = xe['coherent'] + xe['incoherent']
            xe['gapfill'] = ('total',)
        eu = self.rec.get((63, 151))
        if eu is not None and eu['b_c'] is None and eu['coherent'] is not None:
            eu['b_c'] = math.sqrt(eu['coherent'] / FOUR_PI_100)
            eu['gapfill'] = ('b_c',)
        # elements without a natural-abundance row
        self.fallback = {}          # Z -> A of the first listed isotope
        self.single_isotope = set()  # Z with exactly one isotope row and no natural row
        for Z, As in self.isotope_rows.items():
            if Z not in self.natural_rows:
                self.fallback[Z] = As[0]
                if len(As) == 1:
                    self.single_isotope.add(Z)

    def in_table(self, Z, A):
        return (Z, A) in self.row

    def record(self, Z, A):
        if (Z, A) in self.rec:
            return self.rec[(Z, A)]
        if A == 0 and Z in self.fallback:
            return self.rec[(Z, self.fallback[Z])]
        return None

    def has_table(self, Z, A):
        return (Z, A) in self.wtab

    def has_data(self, Z, A):
        """The documented equations can be evaluated: a scattering length and (for ordinary atoms) the total
        and absorption cross sections are tabulated, or the atom has an energy table."""
        if (Z, A) in self.wtab:
            return True
        r = self.record(Z, A)
        return r is not None and None not in (r['b_c'], r['total'], r['absorption'])

    def atom_density(self, Z, A):
        """Density of the element, or of the isotope at the element's number density."""
        rho = self.mass.density.get(self.mass.symbol.get(Z))
        if rho is None:
            return None
        if not A:
            return rho
        return rho * self.mass.iso[(Z, A)][0] / self.mass.el[Z][0]

    # ---------------------------------------------------------------- energy tables
    def wavelength_of_energy(self, E_meV):
        return math.sqrt(self.energy_factor / E_meV)

    def node_wavelength(self, E_eV):
        return math.sqrt(self.energy_factor / (E_eV * 1000))

    def _build_wavelength_tables(self):
        self.wtab = {}
        for k, rows in self.energy.items():
            pts = sorted(((self.node_wavelength(E), complex(re_, im_)) for E, re_, im_, _ in rows),
                         key=lambda p: p[0])
            self.wtab[k] = pts
        # natural Lu is not tabulated: abundance-weighted mix of Lu-175 (constant) and Lu-176 (table)
        if (71, 176) in self.wtab and (71, 175) in self.rec and 71 in self.mass.abundance:
            ab = self.mass.abundance[71]
            a175, a176 = ab[175][0], ab[176][0]
            b175 = self._constant_b(self.rec[(71, 175)])
            self.wtab[(71, 0)] = [(w, (b175 * a175 + b * a176) / 100.) for w, b in self.wtab[(71, 176)]]
            self.derived_tables = [(71, 0)]
        else:
            self.derived_tables = []
        self._wx = {k: [p[0] for p in pts] for k, pts in self.wtab.items()}

    def wavelength_table(self, Z, A):
        return self.wtab[(Z, A)]

    def interpolate(self, Z, A, wavelength):
        """Linear interpolation in wavelength, constant beyond both ends."""
        pts = self.wtab[(Z, A)]
        xs = self._wx[(Z, A)]
        w = float(wavelength)
        if w <= xs[0]:
            return pts[0][1]
        if w >= xs[-1]:
            return pts[-1][1]
        j = bisect.bisect_right(xs, w) - 1
        (w0, b0), (w1, b1) = pts[j], pts[j + 1]
        t = (w - w0) / (w1 - w0)
        return complex(b0.real + t * (b1.real - b0.real), b0.imag + t * (b1.imag - b0.imag))

    # ---------------------------------------------------------------- per-atom quantities
    @staticmethod
    def _constant_b(r):
        return complex(r['b_c'], -r['absorption'] / (2000 * ABSORPTION_WAVELENGTH))

    def b_c_complex(self, Z, A, wavelength=None):
        """b_c - i sigma_a/(2000*1.798); for an energy-dependent entry and a given wavelength the
        interpolated, end-clamped table value."""
        if wavelength is not None and (Z, A) in self.wtab:
            return self.interpolate(Z, A, wavelength)
        r = self.record(Z, A)
        if r is None or r['b_c'] is None or r['absorption'] is None:
            return None
        return self._constant_b(r)

    def b_sigma(self, Z, A, wavelength):
        """(complex bound coherent length, total scattering cross section sigma_s) of one atom."""
        if (Z, A) in self.wtab:
            b = self.interpolate(Z, A, wavelength)
            return b, FOUR_PI_100 * abs(b) ** 2
        r = self.record(Z, A)
        return self._constant_b(r), r['total']

    # ---------------------------------------------------------------- compound reference
    def reference_scattering(self, atom_counts, density, wavelength):
        v, _ = self.reference_with_floors(atom_counts, density, wavelength)
        return (v[0], v[1], v[2]), (v[3], v[4], v[5]), v[6]

    def reference_with_floors(self, atom_counts, density, wavelength):
        """Documented equations of neutron_scattering for {(Z, A, q): count}, density g/cm^3, wavelength A.

        Returns (values, floors): seven floats in the order of NAMES and, for each, the absolute
        disagreement that two *correct* double-precision evaluations may show because of cancellation:
        the weighted sum of scattering lengths of mixed sign, and the clipped difference sigma_s - sigma_c
        (DESIGN 3.7).  The floors are far below 1e-10 relative except where the value itself is the
        residue of a cancellation."""
        w = float(wavelength)
        rho = float(density)
        N = 0.0
        M = 0.0
        sb = 0j
        ss = 0.0
        s_re = s_im = s_ss = 0.0
        for (Z, A, q), n in atom_counts.items():
            b, s = self.b_sigma(Z, A, w)
            N += n
            M += n * self.mass.atom_mass((Z, A, q), self.electron_mass)
            sb += n * b
            ss += n * s
            s_re += abs(n * b.real)
            s_im += abs(n * b.imag)
            s_ss += abs(n * s)
        b = sb / N
        sigma_s = ss / N
        s_re /= N
        s_im /= N
        s_ss /= N
        volume = (M / rho) / self.NA * 1e24          # A^3 per formula unit
        nd = N / volume                              # atoms per A^3
        sigma_c = FOUR_PI_100 * abs(b) ** 2
        sigma_i = max(sigma_s - sigma_c, 0.0)
        b_i = math.sqrt(sigma_i / FOUR_PI_100)
        sigma_a = 2000 * abs(b.imag) * w
        values = (10 * nd * b.real, abs(10 * nd * b.imag), 10 * nd * b_i,
                  nd * sigma_c, nd * sigma_a, nd * sigma_i, 1 / (nd * sigma_a + nd * sigma_s))
        # conditioning: an evaluation order may differ by ~1e-15 of the sum of |terms|; take 1e-13
        e = 1e-13
        d_re, d_im = e * s_re, e * s_im
        d_sigc = FOUR_PI_100 * 2 * (abs(b.real) * d_re + abs(b.imag) * d_im)
        d_sigi = d_sigc + e * s_ss + 1e-13 * (sigma_c + sigma_a + sigma_i)
        # b_i = sqrt(sigma_i/k): |delta b_i| <= sqrt(delta sigma_i / k) when sigma_i ~ 0, else delta/(2 sqrt)
        if sigma_i > 0:
            d_bi = min(math.sqrt(d_sigi / FOUR_PI_100), d_sigi / (2 * math.sqrt(sigma_i * FOUR_PI_100)))
        else:
            d_bi = math.sqrt(d_sigi / FOUR_PI_100)
        floors = (10 * nd * d_re, 10 * nd * d_im, 10 * nd * d_bi,
                  nd * d_sigc, nd * 2000 * d_im * w, nd * d_sigi,
                  values[6] ** 2 * nd * (2000 * d_im * w + e * s_ss))
        # never looser than the measured rule of DESIGN 3.7, never tighter than it near a true zero
        floors = list(floors)
        floors[2] = min(floors[2], 1e-7 * (abs(values[0]) + values[1]))
        floors[5] = min(floors[5], 1e-13 * (values[3] + values[4] + values[5]) + nd * d_sigc)
        return values, tuple(floors)

    def natural_mass(self, atom_counts):
        return sum(n * self.mass.atom_mass((Z, 0, q), self.electron_mass) for (Z, A, q), n in atom_counts.items())

    def formula_mass(self, atom_counts):
        return sum(n * self.mass.atom_mass(k, self.electron_mass) for k, n in atom_counts.items())

    # ---------------------------------------------------------------- loader reach
    def expected_fix_number_calls(self):
        """Numbers a loader must convert to read every row: 7 per row of the main table, one per
        isotope row that carries an abundance, 3 per row of the imaginary table."""
        return 7 * self.nrows + self.abundance_numbers + 3 * len(self.imag_rows)


def flatten7(result, shape=()):
    """((a,b,c),(d,e,f),g) -> list of seven float arrays broadcast to *shape*."""
    import numpy as np
    (a, b, c), (d, e, f), g = result
    return [np.broadcast_to(np.asarray(x, dtype=float), shape) for x in (a, b, c, d, e, f, g)]


def compare7(got, ref, floors, rel=1e-10):
    """Seven observed floats against seven reference floats.  A value passes when it is within *rel*
    relative or within its absolute floor.  NaN or inf observed never passes (the reference is finite).
    Returns (failures, worst, floor_only):
      failures   [(index, name, got, want, relative error)]
      worst      list of seven: relative error of each value that passed the relative test (else 0)
      floor_only indexes of the values that passed only through their absolute floor (relative error > rel)"""
    bad = []
    worst = [0.0] * 7
    floor_only = []
    for i in range(7):
        g, r = float(got[i]), float(ref[i])
        if g != g or g in (math.inf, -math.inf):
            bad.append((i, NAMES[i], g, r, math.inf))
            continue
        d = abs(g - r)
        relerr = d / abs(r) if r != 0 else (0.0 if d == 0 else math.inf)
        if relerr <= rel:
            worst[i] = relerr
        elif d <= floors[i]:
            floor_only.append(i)
        else:
            bad.append((i, NAMES[i], g, r, relerr))
    return bad, worst, floor_only


# ---------------------------------------------------------------------- input-immutability monitor
class ArgumentGuard(object):
    """In-process monitor: the mutable wavelength / energy arguments (numpy arrays, lists) of the neutron
    calculators must come back from the call exactly as they went in.

    Hand-written wrappers (named functions, rebinding module / class attributes so that internal calls are
    seen too) around nsf.neutron_scattering, nsf.neutron_sld, Neutron.scattering, Neutron.sld and
    Neutron.scattering_by_wavelength.  Before the call every ndarray / list passed as `wavelength` or `energy`
    is copied; after the call the caller's object must still have the same type, shape, dtype and contents.
    Failures are queued in `.failures` (the owner turns them into violations), evaluations are counted in
    `.evaluations` / `.by_function`.  Independent of NeutronModel; used by C03 and C04."""

    NAMES = ('wavelength', 'energy')

    def __init__(self):
        self.evaluations = 0
        self.by_function = {}
        self.failures = []

    @staticmethod
    def snapshot(value):
        import numpy as np
        if isinstance(value, np.ndarray):
            return ('ndarray', value.shape, value.dtype.str, value.copy())
        if isinstance(value, list):
            import copy
            return ('list', copy.deepcopy(value))
        return None

    @staticmethod
    def unchanged(snap, value):
        import numpy as np
        if snap[0] == 'ndarray':
            if not isinstance(value, np.ndarray) or value.shape != snap[1] or value.dtype.str != snap[2]:
                return False
            if value.dtype.kind in 'fc':
                return bool(np.array_equal(snap[3], value, equal_nan=True))
            return bool(np.array_equal(snap[3], value))
        return isinstance(value, list) and repr(value) == repr(snap[1])

    @staticmethod
    def text(value):
        try:
            return ('%s %r' % (type(value).__name__, value.tolist() if hasattr(value, 'tolist') else value))[:400]
        except Exception:
            return repr(value)[:400]

    def guard(self, func, label, positional=None):
        """Wrapper of *func*; *positional* maps positional index -> argument name for arguments that may be
        given positionally."""
        import functools
        positional = dict(positional or {})
        names = self.NAMES
        snapshot, unchanged = self.snapshot, self.unchanged
        owner = self

        @functools.wraps(func)
        def guarded_call(*args, **kw):
            held = None
            for name in names:
                if name in kw:
                    s = snapshot(kw[name])
                    if s is not None:
                        held = (held or []) + [(name, kw[name], s)]
            for idx, name in positional.items():
                if idx < len(args):
                    s = snapshot(args[idx])
                    if s is not None:
                        held = (held or []) + [(name, args[idx], s)]
            out = func(*args, **kw)
            if held:
                for name, value, s in held:
                    owner.evaluations += 1
                    owner.by_function[label] = owner.by_function.get(label, 0) + 1
                    if not unchanged(s, value):
                        owner.failures.append({'function': label, 'argument': name,
                                               'before': owner.text(s[-1]), 'after': owner.text(value)})
            return out

        guarded_call._pvmon_guard = self
        return guarded_call

    @classmethod
    def install(cls, nsf):
        """Attach the wrappers (once per process); returns the guard."""
        existing = getattr(nsf.neutron_scattering, '_pvmon_guard', None)
        if existing is not None:
            return existing
        g = cls()
        nsf.neutron_scattering = g.guard(nsf.neutron_scattering, 'neutron_scattering')
        nsf.neutron_sld = g.guard(nsf.neutron_sld, 'neutron_sld')
        N = nsf.Neutron
        N.scattering = g.guard(N.scattering, 'Neutron.scattering')
        N.sld = g.guard(N.sld, 'Neutron.sld')
        N.scattering_by_wavelength = g.guard(N.scattering_by_wavelength, 'Neutron.scattering_by_wavelength',
                                             positional={1: 'wavelength'})
        return g


# ---------------------------------------------------------------------- optional instrumentation of private parts
def anchor_missing(ctx, what, requirements=(), why='is not present in this source tree'):
    """Instrumentation of a PRIVATE part of the library is optional: the reach requirements that depend on it are
    waived (the CLI skips a requirement whose `anchor_missing.<counter>` is non-zero) and the fact is noted."""
    requirements = [requirements] if isinstance(requirements, str) else list(requirements)
    for r in requirements:
        ctx.count('anchor_missing.' + r)
    ctx.note('optional instrumentation skipped: %s %s%s'
             % (what, why, ('; waived: ' + ', '.join(requirements)) if requirements else ''))


def private(ctx, owner, name, requirements=()):
    """getattr(owner, name, None) for a private name; absent -> the requirements are waived with a note."""
    obj = getattr(owner, name, None)
    if obj is None:
        anchor_missing(ctx, '%s.%s' % (getattr(owner, '__name__', owner), name), requirements)
    return obj


def function_of(obj):
    """The plain function (an object with __code__) behind a function, a decorated function, a bound method, a
    property or an instance of a class with __call__ (a calculator object); None when there is none."""
    import inspect
    try:
        if isinstance(obj, property):
            obj = obj.fget
        if isinstance(obj, (staticmethod, classmethod)):
            obj = obj.__func__
        if callable(obj):
            obj = inspect.unwrap(obj)
        obj = getattr(obj, '__func__', obj)
        if getattr(obj, '__code__', None) is not None:
            return obj
        if obj is not None and not inspect.isclass(obj):
            call = getattr(type(obj), '__call__', None)
            call = inspect.unwrap(call) if callable(call) else call
            if getattr(call, '__code__', None) is not None:
                return call
    except Exception:
        pass
    return None


def watch_entry(ctx, reach, obj, label, requirements=None):
    """Entry counter `reach.<label>` on the code object of *obj*; None / no code object -> waived, noted."""
    f = function_of(obj) if obj is not None else None
    if f is None:
        requirements = ['reach.' + label] if requirements is None else list(requirements)
        if obj is None and requirements and all(ctx.counters.get('anchor_missing.' + r, 0) for r in requirements):
            return False                       # already reported as absent by private()
        anchor_missing(ctx, 'entry counter %s' % label, requirements,
                       why='has no code object to watch in this source tree')
        return False
    reach.watch(f, label)
    return True


def watch_lines(ctx, reach, obj, texts, label):
    """Line counter `reach.<label>` on the first source line of *obj* that contains one of *texts*.  A source that
    is not available or no longer contains any of them never stops a check: the label goes to reach.missing,
    Reach.export() then reports `anchor_missing.reach.<label>` and the CLI waives the requirement."""
    f = function_of(obj) if obj is not None else None
    if f is not None:
        for text in texts:
            try:
                reach.watch_line_matching(f, text, label)
            except Exception:                 # OSError / TypeError: no source text; LookupError: older statemon
                continue
            if label in reach.lines.values():
                reach.missing.discard(label)
                return True
    reach.missing.add(label)
    return False


def tolerant(orig, names, judged, counters, label):
    """Wrapper (*args, **kw) of the private function *orig*.  When the arguments of a call can be bound to the
    parameter names *names* of the signature *orig* has in this tree, the call goes through
    judged(<values of names>..., _call=<the pending call>) - typically an icontract-decorated adapter of fixed
    signature that returns _call().  Otherwise (renamed / regrouped parameters) the call is passed through un-judged
    and counted in counters[label + '.unrecognised_call']."""
    import functools
    import inspect
    try:
        sig = inspect.signature(orig)
        if not all(n in sig.parameters for n in names):
            sig = None
    except (TypeError, ValueError):
        sig = None

    @functools.wraps(orig)
    def tolerant_call(*args, **kw):
        values = None
        if sig is not None:
            try:
                bound = sig.bind(*args, **kw)
                bound.apply_defaults()
                values = [bound.arguments[n] for n in names]
            except (TypeError, KeyError):
                values = None
        if values is None:
            counters[label + '.unrecognised_call'] += 1
            return orig(*args, **kw)
        return judged(*values, _call=functools.partial(orig, *args, **kw))

    tolerant_call._pvmon_original = orig
    tolerant_call._pvmon_recognised = sig is not None
    return tolerant_call


def waive_if_bypassed(ctx, counter, public_counter, what=None):
    """A counter of entries into a PRIVATE helper proves reach only as long as the public entry points go through
    that helper.  When this shard ran the public entry point (`public_counter` > 0) and never entered the helper,
    the helper is bypassed (merged, replaced, cached) in this tree: the requirement on it is waived with a note;
    what the public entry points return is judged by the oracle all the same."""
    if ctx.counters.get(counter, 0) == 0 and ctx.counters.get(public_counter, 0) > 0 \
            and not ctx.counters.get('anchor_missing.' + counter, 0):
        anchor_missing(ctx, what or counter, [counter],
                       why='was never entered although %s = %d: the public entry points of this tree do not go '
                           'through it' % (public_counter, ctx.counters.get(public_counter, 0)))
        return True
    return False
