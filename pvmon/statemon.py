"""State / reach monitors: sys.monitoring entry counters, line (branch)
counters, numpy floating-point exception monitor."""
import sys
from collections import Counter

TOOL = 3


class Reach(object):
    """Counts PY_START events of chosen code objects (function entries) and,
    optionally, LINE events of chosen (code, line) pairs.  Foreign code objects
    are DISABLEd at first sight, so the overhead stays at a few percent."""

    def __init__(self):
        self.codes = {}      # code object -> label
        self.lines = {}      # (code, lineno) -> label
        self.counts = Counter()
        self.active = False
        self.missing = set()

    def watch(self, func, label=None):
        code = getattr(func, '__code__', None)
        if code is None and isinstance(func, property):
            code = func.fget.__code__
        if code is None:
            raise TypeError('no code object for %r' % (func,))
        self.codes[code] = label or code.co_qualname
        return self

    def watch_line(self, func, lineno, label):
        code = func.__code__
        self.lines[(code, lineno)] = label
        return self

    def watch_line_matching(self, func, text, label, occurrence=0):
        """Watch the first source line of *func* containing *text*."""
        import inspect
        src, start = inspect.getsourcelines(func)
        hits = [i for i, l in enumerate(src) if text in l]
        if len(hits) <= occurrence:
            # the source was refactored: the branch counter is evidence only, never a reason to stop;
            # export() reports the anchor as missing and the CLI then waives the reach requirement
            self.missing.add(label)
            return self
        return self.watch_line(func, start + hits[occurrence], label)

    def start(self):
        mon = sys.monitoring
        try:
            mon.use_tool_id(TOOL, 'pvmon')
        except ValueError:
            pass
        E = mon.events

        def on_start(code, offset):
            label = self.codes.get(code)
            if label is None:
                return mon.DISABLE
            self.counts[label] += 1

        def on_line(code, lineno):
            label = self.lines.get((code, lineno))
            if label is None:
                return mon.DISABLE
            self.counts[label] += 1

        mon.register_callback(TOOL, E.PY_START, on_start)
        mon.set_events(TOOL, E.PY_START)
        if self.lines:
            mon.register_callback(TOOL, E.LINE, on_line)
            for code in {c for c, _ in self.lines}:
                mon.set_local_events(TOOL, code, E.LINE)
        self.active = True
        return self

    def stop(self):
        if not self.active:
            return
        mon = sys.monitoring
        mon.set_events(TOOL, 0)
        for code in {c for c, _ in self.lines}:
            try:
                mon.set_local_events(TOOL, code, 0)
            except Exception:
                pass
        mon.register_callback(TOOL, mon.events.PY_START, None)
        mon.register_callback(TOOL, mon.events.LINE, None)
        mon.free_tool_id(TOOL)
        self.active = False

    def export(self, ctx, prefix='reach.'):
        for label in list(self.codes.values()) + list(self.lines.values()):
            ctx.counters[prefix + label] += self.counts.get(label, 0)
            self.counts[label] = 0
        for label in self.missing:
            ctx.counters['anchor_missing.' + prefix + label] += 1
            ctx.note('source anchor of line counter %r not found (refactored source); requirement waived' % label)


class FPMonitor(object):
    """numpy floating-point exception monitor: records (kind, innermost
    periodictable frame).  Observer only."""

    def __init__(self):
        self.events = Counter()
        self.old = None

    def start(self):
        import numpy as np

        def cb(kind, flag):
            f = sys._getframe(1)
            where = '?'
            while f is not None:
                fn = f.f_code.co_filename
                if 'periodictable' in fn:
                    where = '%s:%s' % (fn.rsplit('/', 1)[-1], f.f_code.co_name)
                    break
                f = f.f_back
            self.events['%s@%s' % (kind, where)] += 1

        self.oldcall = np.seterrcall(cb)
        self.old = np.seterr(all='call')
        return self

    def stop(self):
        import numpy as np
        if self.old is not None:
            np.seterr(**self.old)
            np.seterrcall(self.oldcall)
            self.old = None

    def export(self, ctx):
        for k, v in self.events.items():
            ctx.counters['fpe.' + k] += v
        self.events.clear()
