"""Per-shard context: counters, distinct-case set, samples, violations.

A property module drives a workload as a stream of (check name, case) pairs;
each check function receives the context and a JSON-serialisable case and
reports through the methods below.  Everything the evidence file says is
measured here.
"""
import hashlib
import json
import math
import random
import time
from collections import Counter


def jsonable(x, depth=0):
    """Best-effort conversion of a witness to JSON (never raises)."""
    try:
        import numpy as np
    except Exception:  # pragma: no cover
        np = None
    if depth > 60:
        return repr(x)[:200]
    if x is None or isinstance(x, (bool, int, str)):
        return x
    if isinstance(x, float):
        if math.isnan(x) or math.isinf(x):
            return repr(x)
        return x
    if isinstance(x, complex):
        return repr(x)
    if np is not None:
        if isinstance(x, np.generic):
            return jsonable(x.item(), depth + 1)
        if isinstance(x, np.ndarray):
            return [jsonable(v, depth + 1) for v in x.tolist()][:50]
    if isinstance(x, dict):
        return {str(k): jsonable(v, depth + 1) for k, v in list(x.items())[:200]}
    if isinstance(x, (list, tuple, set, frozenset)):
        return [jsonable(v, depth + 1) for v in list(x)[:200]]
    return repr(x)[:300]


def sig_hash(sig):
    return hashlib.blake2b(repr(sig).encode(), digest_size=8).hexdigest()


class Ctx(object):
    MAX_STORED_VIOLATIONS = 40
    MAX_SAMPLES_PER_CHECK = 3

    def __init__(self, prop, tier, seed, shard=0, nshards=1, replay=False):
        self.prop = prop
        self.tier = tier
        self.seed = int(seed)
        self.shard = shard
        self.nshards = nshards
        self.replay = replay
        self.rng = random.Random((self.seed * 1000003 + shard * 7919 + 17) & 0xFFFFFFFFFFFF)
        self.counters = Counter()
        self.distinct = set()
        self.samples = {}
        self.violations = []
        self.nviolations = 0
        self.worst = {}
        self.requirements = {}
        self.notes = []
        self.harness_errors = []
        self.t0 = time.time()
        self.cur = None  # (check, case)
        self.info = {}   # free-form evidence extras (merged by dict.update)
        self.classifier = None  # property's mechanism classifier: record -> key | None
        self.bykey = Counter()

    # -- workload bookkeeping -------------------------------------------
    def thorough(self):
        return self.tier == 'thorough'

    def scale(self, quick, thorough):
        """Per-shard size for the tier."""
        return thorough if self.tier == 'thorough' else quick

    def mine(self, index):
        """Round-robin ownership of an enumerated item by this shard."""
        return index % self.nshards == self.shard

    def begin(self, check, case):
        self.cur = (check, case)
        self.counters['cases'] += 1
        self.counters['cases.' + check] += 1
        s = self.samples.setdefault(check, [])
        if len(s) < self.MAX_SAMPLES_PER_CHECK:
            s.append(jsonable(case))

    def evaluated(self, n=1, what=None):
        """Count oracle evaluations (comparisons of an observed value with the model)."""
        self.counters['evaluations'] += n
        if what:
            self.counters['eval.' + what] += n

    def distinct_case(self, sig):
        """Register a distinct non-trivial case signature (rule is the property's)."""
        self.distinct.add(sig_hash(sig))

    def count(self, name, n=1):
        self.counters[name] += n

    def observe(self, name, value):
        """Track the maximum of an observed error/quantity."""
        try:
            v = float(value)
        except Exception:
            return
        if math.isnan(v):
            return
        if name not in self.worst or v > self.worst[name]:
            self.worst[name] = v

    def require(self, counter, minimum=1, why=''):
        """Reach requirement: verdict is inconclusive unless sum over shards >= minimum."""
        self.requirements[counter] = (minimum, why)

    def note(self, text):
        if len(self.notes) < 20:
            self.notes.append(text)

    # -- verdicts -------------------------------------------------------
    def violation(self, msg, check=None, case=None, **detail):
        if check is None and self.cur:
            check = self.cur[0]
        if case is None and self.cur:
            case = self.cur[1]
        self.nviolations += 1
        self.counters['violations.' + str(check)] += 1
        rec = {'property': self.prop, 'check': check, 'case': jsonable(case),
               'msg': str(msg)[:2000], 'detail': jsonable(detail),
               'seed': self.seed, 'tier': self.tier, 'shard': self.shard}
        key = None
        if self.classifier is not None:
            try:
                key = self.classifier(rec)
            except Exception as exc:  # a failing classifier never hides a violation
                rec['classifier_error'] = repr(exc)
                key = None
        rec['key'] = key
        self.bykey[str(key)] += 1
        if self.bykey[str(key)] <= 8 and len(self.violations) < self.MAX_STORED_VIOLATIONS * 4:
            self.violations.append(rec)
        return rec

    def harness_error(self, text):
        if len(self.harness_errors) < 10:
            self.harness_errors.append(text[-3000:])
        self.counters['harness_errors'] += 1

    # -- numeric helpers ------------------------------------------------
    def close(self, got, want, rel=1e-12, abs_=0.0, name=None):
        """True if got ~ want; records worst relative error under *name*."""
        try:
            g = complex(got)
            w = complex(want)
        except Exception:
            return False
        if g != g or w != w:  # NaN: only equal if both NaN
            return (g != g) and (w != w)
        if math.isinf(abs(g)) or math.isinf(abs(w)):
            return g == w
        err = abs(g - w)
        scale = max(abs(g), abs(w))
        if name and scale > 0:
            self.observe(name, err / scale if err > abs_ else 0.0)
        return err <= rel * scale or err <= abs_

    def dump(self):
        return {
            'prop': self.prop, 'tier': self.tier, 'seed': self.seed,
            'shard': self.shard, 'nshards': self.nshards,
            'counters': dict(self.counters), 'distinct': sorted(self.distinct),
            'samples': self.samples, 'violations': self.violations,
            'nviolations': self.nviolations, 'bykey': dict(self.bykey), 'worst': self.worst,
            'requirements': self.requirements, 'notes': self.notes,
            'harness_errors': self.harness_errors, 'info': jsonable(self.info),
            'wall_s': time.time() - self.t0,
        }
