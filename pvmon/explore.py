"""History explorer for the lazily loaded property groups of the public table (C09).

Three ways of executing a *history* (a list of event names):

  * in this process (only ever done in a forked child or in a fresh interpreter),
  * in a fork tree: a pristine interpreter (only `import periodictable`, plus the
    third-party numpy/pyparsing) forks a child that replays history h; the child
    forks grandchildren that apply one more event each to that state and report
    (event value, abstract loader state, loader trace) over a pipe; attribute
    events that changed nothing may share a grandchild (see expand_here),
  * in a fresh interpreter (`python -c`), used for the canonical values, for every
    violating history and for random samples, so that no verdict rests on fork().

Nothing here changes the library: the loader trace uses sys.monitoring, the
abstract state reads class dictionaries.  The module itself imports only the
standard library, so importing it does not disturb a pristine interpreter.

Robustness against refactoring of the library (notes/ROBUSTNESS_GUIDE.md): whether a
lazy attribute is still *pending* is decided WITHOUT looking inside the placeholder:
right after `import periodictable` (pristine interpreter, start of every fresh
interpreter) `record_placeholders()` keeps the very objects found in the class
dictionaries of Element / Isotope / Ion under the lazy names; an attribute is pending
exactly while the class dictionary still holds that object (a loader deletes or
replaces it).  The loader trace (entries of the nested functions of
core.delayed_load, of the private `_load_*` functions) is evidence only and optional:
when those code objects do not exist the trace is simply empty, and "which event
fired which loader" is read off the abstract state (pending before, not pending after).
"""
import hashlib
import json
import os
import re
import select
import signal
import subprocess
import sys
import time
import traceback
from collections import OrderedDict

# --------------------------------------------------------------------------
# the seven lazy groups, in registration order of periodictable/__init__.py
# --------------------------------------------------------------------------
GROUPS = OrderedDict([
    ('covalent_radius', dict(attrs=['covalent_radius', 'covalent_radius_units', 'covalent_radius_uncertainty'],
                             module='covalent_radius', init='init', load='_load_covalent_radius',
                             flag='covalent_radius', nodata='Og', canon='el')),
    ('crystal_structure', dict(attrs=['crystal_structure'], module='crystal_structure', init='init',
                               load='_load_crystal_structure', flag='crystal_structure', nodata='Og', canon='el')),
    ('neutron', dict(attrs=['neutron'], module='nsf', init='init', load='_load_neutron',
                     flag='neutron', nodata='At', canon='el')),
    ('neutron_activation', dict(attrs=['neutron_activation'], module='activation', init='init',
                                load='_load_neutron_activation', flag='neutron_activation', nodata='H[1]',
                                canon='iso')),
    ('xray', dict(attrs=['xray'], module='xsf', init='init', load='_load_xray', flag='xray', nodata='Og',
                  canon='el')),
    ('emission', dict(attrs=['K_alpha', 'K_beta1', 'K_alpha_units', 'K_beta1_units'], module='xsf',
                      init='init_spectral_lines', load='_load_emission_lines', flag=None, nodata='H',
                      canon='el')),
    ('magnetic_ff', dict(attrs=['magnetic_ff'], module='magnetic_ff', init='init', load='_load_magnetic_ff',
                         flag='magnetic_ff', nodata='H', canon='el')),
])
ATTRS = [a for g in GROUPS.values() for a in g['attrs']]
# data that a loader sets without registering it with core.delayed_load: part of the neutron group by
# its documentation (nuclear_spin), read through isotopes only; not part of the abstract loader state
EXTRA_ATTRS = OrderedDict([('nuclear_spin', dict(group='neutron', routes=['iso', 'isoion', 'nodata'],
                                                 nodata='Fe[45]'))])
EXTRA_ATTR_ATOMS = ['Cu[63]', 'Ni[58].ion[2]', 'D', 'U[238]']
GROUP_OF = {a: g for g, d in GROUPS.items() for a in d['attrs']}
LOAD_GROUP = {d['load']: g for g, d in GROUPS.items()}
INIT_GROUP = {(d['module'] + '.py', d['init']): g for g, d in GROUPS.items()}
CLASSES = ('Element', 'Isotope', 'Ion')
CLASS_LABEL = {'Element': 'E', 'Isotope': 'I', 'Ion': 'N'}
ROUTES = OrderedDict([('el', 'Fe'), ('iso', 'Fe[58]'), ('ion', 'Fe.ion[2]'), ('isoion', 'Fe[58].ion[2]')])
OBJECT_ROUTES = list(ROUTES)            # the routes every group must have been fired through
SUBMODULES = ['nsf', 'xsf', 'covalent_radius', 'crystal_structure', 'magnetic_ff', 'activation',
              'fasta', 'formulas', 'cromermann']
INIT_MODULES = ['covalent_radius', 'crystal_structure', 'nsf', 'activation', 'xsf', 'magnetic_ff']
CALCS = ['neutron_sld', 'neutron_sld_D2O', 'xray_sld', 'volume', 'activation', 'formula']
DIGEST_CALCS = ['neutron_sld', 'neutron_sld_D2O', 'xray_sld', 'volume', 'activation']
# first element-route read of each group, registration order
CANON = ['read:%s:%s' % (d['attrs'][0], d['canon']) for d in GROUPS.values()]
# atoms other than the representatives, used by the thorough alphabet
EXTRA_ATOMS = ['Cu', 'Cu[63]', 'Cu.ion[2]', 'Ni[58].ion[2]', 'H', 'D', 'O.ion[-2]', 'U', 'U[238]', 'Co', 'n', 'Xe']

MARK = '@@PVMON-C09@@'


# --------------------------------------------------------------------------
# values
# --------------------------------------------------------------------------
def norm(v, depth=0):
    """JSON-able, process-independent rendering of a served value."""
    if v is None or isinstance(v, (bool, int, str)):
        return v
    if isinstance(v, float):
        if v != v:
            return 'nan'
        if v in (float('inf'), float('-inf')):
            return repr(v)
        return v
    if isinstance(v, complex):
        return ['complex', norm(v.real), norm(v.imag)]
    if depth > 6:
        return 'deep:' + type(v).__name__
    if type(v).__module__ == 'numpy':
        if hasattr(v, 'shape') and getattr(v, 'shape', ()) != ():
            if v.size <= 16:
                return ['ndarray', list(v.shape), [norm(x, depth + 1) for x in v.ravel().tolist()]]
            return ['ndarray', list(v.shape), hashlib.md5(repr(v.tolist()).encode()).hexdigest()]
        try:
            return norm(v.item(), depth + 1)
        except Exception:
            return 'numpy:' + type(v).__name__
    if isinstance(v, (list, tuple)):
        return [norm(x, depth + 1) for x in v]
    if isinstance(v, dict):
        return {str(k): norm(x, depth + 1) for k, x in sorted(v.items(), key=lambda kv: str(kv[0]))}
    if isinstance(v, (set, frozenset)):
        return sorted(str(x) for x in v)
    cls = type(v).__name__
    if cls in ('Element', 'Isotope', 'Ion'):
        return 'atom:' + repr(v)
    if hasattr(v, '__dict__'):
        d = {str(k): norm(x, depth + 1) for k, x in sorted(vars(v).items()) if k != 'element'}
        d['__class__'] = cls
        return d
    return 'object:' + cls


def exc_value(e):
    return ['EXC', type(e).__name__, str(e)[:160]]


def is_exc(v):
    return isinstance(v, list) and len(v) == 3 and v[0] == 'EXC'


def safe(fn):
    try:
        return norm(fn())
    except Exception as e:  # noqa - an exception is a value here
        return exc_value(e)


def table():
    import periodictable
    return periodictable.elements


_ATOM_RE = re.compile(r'^([A-Za-z]+)(?:\[(\d+)\])?(?:\.ion\[(-?\d+)\])?$')


def atom(spec):
    m = _ATOM_RE.match(spec)
    if not m:
        raise ValueError('bad atom spec %r' % spec)
    sym, a, q = m.groups()
    t = table()
    obj = t[0] if sym == 'n' else getattr(t, sym)
    if a is not None:
        obj = obj[int(a)]
    if q is not None:
        obj = obj.ion[int(q)]
    return obj


def route_atom(attr, route):
    if route in ROUTES:
        return atom(ROUTES[route])
    if route == 'nodata':
        if attr in EXTRA_ATTRS:
            return atom(EXTRA_ATTRS[attr]['nodata'])
        return atom(GROUPS[GROUP_OF[attr]]['nodata'] if attr in GROUP_OF else 'Og')
    return atom(route)


def view(attr, v):
    """What a read of attribute *attr* serves, rendered."""
    if attr == 'neutron':
        d = norm(vars(v))
        d['has_sld()'] = safe(v.has_sld)
        return d
    if attr == 'neutron_activation':
        return [norm(vars(r)) for r in v]
    if attr == 'xray':
        return {'sf@8keV': safe(lambda: v.scattering_factors(energy=8.0)),
                'f0(0.5)': safe(lambda: v.f0(0.5)),
                'sld@8keV': safe(lambda: v.sld(energy=8.0))}
    if attr == 'magnetic_ff':
        return {str(q): norm(vars(f)) for q, f in sorted(v.items())}
    return norm(v)


# --------------------------------------------------------------------------
# events
# --------------------------------------------------------------------------
def _calc(which):
    import periodictable as pt
    if which == 'neutron_sld':
        return pt.neutron_sld('Fe2O3', density=5.2, wavelength=4.75)
    if which == 'neutron_sld_D2O':
        return pt.neutron_sld('D2O', density=1.1, wavelength=4.75)
    if which == 'xray_sld':
        return pt.xray_sld('Fe2O3', density=5.2, energy=8.0)
    if which == 'volume':
        return pt.formula('Fe2O3').volume()
    if which == 'formula':
        return str(pt.formula('Fe2O3'))
    if which == 'activation':
        from periodictable import activation as A
        s = A.Sample('Co30Fe70', 10)
        s.calculate_activation(A.ActivationEnvironment(1e5, 70, 50), exposure=10, rest_times=[0, 1])
        return sorted([str(a.isotope), str(a.daughter), str(a.reaction), list(v)] for a, v in s.activity.items())
    raise ValueError('unknown calculator %r' % which)


_SENTINEL = object()
SWEEP_ATTRS = ('xray', 'neutron', 'covalent_radius', 'crystal_structure', 'K_alpha', 'magnetic_ff')


def run_event(name):
    """Execute the event called *name* in this interpreter; return its rendered value.
    An exception raised by the library is the event's value."""
    parts = name.split(':')
    kind = parts[0]
    try:
        if kind == 'read':
            attr, route = parts[1], parts[2]
            return view(attr, getattr(route_atom(attr, route), attr))
        if kind == 'hasattr':
            attr, route = parts[1], parts[2]
            return hasattr(route_atom(attr, route), attr)
        if kind == 'getattr_d':
            attr, route = parts[1], parts[2]
            v = getattr(route_atom(attr, route), attr, _SENTINEL)
            return 'DEFAULT' if v is _SENTINEL else view(attr, v)
        if kind == 'calc':
            return norm(_calc(parts[1]))
        if kind == 'sweep':
            # the attribute read through EVERY element (and its first ion) in another order than the
            # digest uses (descending Z, or odd Z before even Z); the value is keyed and sorted, so it
            # is order independent unless what one atom serves depends on which atom was read before
            attr, order = parts[1], parts[2]
            els = list(table())
            els = els[::-1] if order == 'desc' else els[1::2] + els[0::2]
            out = {}
            for e in els:
                for obj, key in [(e, e.symbol)] + [(e.ion[q], '%s.ion[%d]' % (e.symbol, q)) for q in e.ions[:1]]:
                    try:
                        out[key] = view(attr, getattr(obj, attr))
                    except Exception as exc:  # noqa
                        out[key] = exc_value(exc)
            return norm(out)
        if kind == 'import':
            __import__('periodictable.' + parts[1])
            return None
        if kind in ('init', 'reinit'):
            if parts[1] == 'emission':
                mod, fn = 'xsf', 'init_spectral_lines'
            else:
                mod, fn = parts[1], 'init'
            m = __import__('periodictable.' + mod, fromlist=['x'])
            if kind == 'reinit':
                return norm(getattr(m, fn)(table(), reload=True))
            return norm(getattr(m, fn)(table()))
    except Exception as e:  # noqa
        return exc_value(e)
    raise ValueError('unknown event %r' % name)


def alphabet(tier='quick'):
    """Stable, ordered list of event names."""
    ev = []
    for kind in ('read', 'hasattr', 'getattr_d'):
        for a in ATTRS:
            for r in list(ROUTES) + ['nodata']:
                ev.append('%s:%s:%s' % (kind, a, r))
        for a, d in EXTRA_ATTRS.items():
            for r in d['routes']:
                ev.append('%s:%s:%s' % (kind, a, r))
    ev += ['calc:' + c for c in CALCS]
    ev += ['sweep:%s:%s' % (a, o) for a in SWEEP_ATTRS for o in ('desc', 'oddeven')]
    ev += ['import:' + m for m in SUBMODULES]
    ev += ['init:' + m for m in INIT_MODULES] + ['init:emission']
    ev += ['reinit:' + m for m in INIT_MODULES]
    if tier == 'thorough':
        for a in ATTRS:
            for spec in EXTRA_ATOMS:
                ev.append('read:%s:%s' % (a, spec))
        for a in EXTRA_ATTRS:
            for spec in EXTRA_ATTR_ATOMS:
                ev.append('read:%s:%s' % (a, spec))
    return ev


def representative_events():
    """About sixty events (62), one per (means, group, route) that can behave differently."""
    ev = []
    for a in ['covalent_radius', 'crystal_structure', 'neutron', 'neutron_activation', 'xray', 'K_alpha',
              'K_alpha_units', 'magnetic_ff']:
        for r in ROUTES:
            ev.append('read:%s:%s' % (a, r))
    ev += ['read:nuclear_spin:iso', 'read:nuclear_spin:isoion']
    for a in ['covalent_radius', 'crystal_structure', 'neutron', 'neutron_activation', 'xray', 'K_alpha',
              'magnetic_ff']:
        ev.append('hasattr:%s:nodata' % a)
    ev += ['calc:' + c for c in DIGEST_CALCS]
    ev += ['init:' + m for m in INIT_MODULES] + ['init:emission']
    ev += ['reinit:' + m for m in INIT_MODULES]
    ev += ['import:nsf', 'import:xsf', 'import:activation']
    return ev


def walk_alphabet(which):
    """'full': the whole quick alphabet.  'representative': the sixty representative events plus
    every calculator, import, init and reinit event (used by the fine-abstraction walk)."""
    full = alphabet('quick')
    if which == 'full':
        return full
    keep = set(representative_events()) | {e for e in full if event_kind(e) not in BATCHABLE}
    return [e for e in full if e in keep]


def event_kind(name):
    return name.split(':')[0]


def event_group(name):
    """Lazy group an event addresses directly (None for calculators/imports of helper modules)."""
    p = name.split(':')
    if p[0] in ('read', 'hasattr', 'getattr_d'):
        return GROUP_OF.get(p[1])      # None for names outside the alphabet (e.g. nuclear_spin)
    if p[0] in ('init', 'reinit'):
        if p[1] == 'emission':
            return 'emission'
        for g, d in GROUPS.items():
            if d['module'] == p[1] and d['init'] == 'init':
                return g
    return None


def event_route(name):
    p = name.split(':')
    if p[0] in ('read', 'hasattr', 'getattr_d'):
        return p[2]
    return p[0]


# --------------------------------------------------------------------------
# abstract loader state
# --------------------------------------------------------------------------
# The objects that `import periodictable` leaves in the class dictionaries under the lazy names
# (the delayed-load placeholders), recorded by identity; the objects themselves are kept so that the
# identities stay unique.  Recorded in the pristine interpreter (inherited by every fork) and at the
# start of every fresh interpreter, in both cases before any event ran.
_PLACEHOLDERS = {}          # (class name, attribute name) -> object
_placeholders_recorded = [False]


def _is_descriptor(v):
    return hasattr(type(v), '__get__')


def record_placeholders(force=False):
    """Remember which object each class dictionary holds under each lazy attribute name.  Only
    descriptors count (a placeholder has to intercept the first read); a plain class-level default
    that is there from the start is plain data.  Nothing of the objects is inspected."""
    if _placeholders_recorded[0] and not force:
        return _PLACEHOLDERS
    from periodictable import core
    _PLACEHOLDERS.clear()
    for cname in CLASSES:
        cls = getattr(core, cname)
        for a in ATTRS:
            v = vars(cls).get(a, _SENTINEL)
            if v is not _SENTINEL and _is_descriptor(v):
                _PLACEHOLDERS[(cname, a)] = v
    _placeholders_recorded[0] = True
    return _PLACEHOLDERS


def placeholder_names():
    return sorted('%s.%s' % k for k in _PLACEHOLDERS)


def _kind(v, placeholder=None):
    if v is _SENTINEL:
        return '-'                         # absent
    if placeholder is not None and v is placeholder:
        return 'P'                         # still the object the import put there: pending delayed load
    if isinstance(v, property) or (hasattr(type(v), '__get__') and hasattr(type(v), '__set__')):
        return 'p'                         # some other property / data descriptor
    return 'd'                             # plain data default


def abstract_state(fine=False):
    from periodictable import core
    record_placeholders()
    t = table()
    parts = []
    for cname in CLASSES:
        cls = getattr(core, cname)
        parts.append(CLASS_LABEL[cname] + ':' + ''.join(
            _kind(vars(cls).get(a, _SENTINEL), _PLACEHOLDERS.get((cname, a))) for a in ATTRS))
    parts.append('props:' + ','.join(sorted(set(t.properties))))
    if fine:
        # multiplicity of every name in table.properties, capped at 2
        parts.append('mult:' + ','.join('%s=%d' % (n, min(2, t.properties.count(n)))
                                        for n in sorted(set(t.properties))))
        # instance dictionaries of the representative atoms (layout of the library's objects: part of
        # the abstraction only, never of an oracle; an atom without __dict__ contributes dots)
        reps = list(ROUTES.values()) + ['H', 'H[1]', 'Og', 'At', 'Cu', 'n']
        for spec in reps:
            try:
                d = atom(spec).__dict__
            except Exception:
                d = {}
            parts.append(spec + ':' + ''.join('i' if a in d else '.' for a in ATTRS + ['nuclear_spin']))
        e, i = vars(core.Element).get('neutron', _SENTINEL), vars(core.Isotope).get('neutron', _SENTINEL)
        parts.append('same-missing:%d' % int(e is i and e is not _SENTINEL))
    return '|'.join(parts)


def group_pending(state, group):
    """True when, in (coarse part of) abstract state string *state*, the group still has a pending property."""
    idx = [ATTRS.index(a) for a in GROUPS[group]['attrs']]
    for part in state.split('|')[:3]:
        kinds = part.split(':', 1)[1]
        if any(kinds[i] == 'P' for i in idx):
            return True
    return False


# --------------------------------------------------------------------------
# digest of everything the public table serves lazily
# --------------------------------------------------------------------------
def digest():
    t = table()
    d = {}

    def rd(key, obj, attr):
        try:
            d[key] = view(attr, getattr(obj, attr))
        except Exception as e:  # noqa
            d[key] = exc_value(e)

    for e in t:
        s = e.symbol
        for a in ATTRS:
            if a == 'neutron_activation':
                continue
            rd('%s.%s' % (s, a), e, a)
        for q in e.ions[:2]:
            rd('%s.ion[%d].xray' % (s, q), e.ion[q], 'xray')
        for iso in e:
            k = repr(iso)
            rd(k + '.neutron', iso, 'neutron')
            d[k + '.neutron(own)'] = 'neutron' in getattr(iso, '__dict__', ())
            d[k + '.nuclear_spin'] = safe(lambda: iso.nuclear_spin)
            rd(k + '.neutron_activation', iso, 'neutron_activation')
    # every group through delegation for a few isotopes / ions / isotope ions
    for spec in ['Fe[58]', 'Fe.ion[2]', 'Fe[58].ion[2]', 'Cu[63]', 'Cu.ion[2]', 'Ni[58].ion[2]', 'D', 'O.ion[-2]']:
        obj = atom(spec)
        for a in ATTRS:
            rd('%s->%s' % (spec, a), obj, a)
    for c in DIGEST_CALCS:
        d['calc:' + c] = run_event('calc:' + c)
    return d


def entry_attr(key):
    """Attribute name (or calc:<name>) a digest entry belongs to."""
    if key.startswith('calc:'):
        return key
    if '->' in key:
        return key.split('->', 1)[1]
    return key.rsplit('.', 1)[1].replace('(own)', '')


def diff_digest(got, want, limit=12):
    """Per-entry comparison: [number of differing entries, the first *limit* of them as
    [key, got, want], sorted attribute names over ALL differing entries]."""
    bad = []
    attrs = set()
    n = 0
    for k in want:
        g = got.get(k, 'MISSING-ENTRY')
        if g != want[k]:
            n += 1
            attrs.add(entry_attr(k))
            if len(bad) < limit:
                bad.append([k, _short(g), _short(want[k])])
    for k in got:
        if k not in want:
            n += 1
            attrs.add(entry_attr(k))
            if len(bad) < limit:
                bad.append([k, _short(got[k]), 'MISSING-ENTRY'])
    return [n, bad, sorted(attrs)]


def coarse_of(state):
    """The coarse part (class-dict kinds + property set) of a coarse or fine abstract state."""
    return '|'.join(state.split('|')[:4])


def _short(v, n=200):
    s = json.dumps(v)
    return v if len(s) <= n else s[:n] + '...'


# --------------------------------------------------------------------------
# loader trace (sys.monitoring; observer only)
# --------------------------------------------------------------------------
TOOL = 4
_trace = []
_trace_on = [False]


TRACE_ANCHORS = ('getfn', 'setfn', 'clearprops')     # nested functions of core.delayed_load (private)


def _code_names(code, out, depth=0):
    out.add(code.co_name)
    if depth < 6:
        for c in code.co_consts:
            if hasattr(c, 'co_name'):
                _code_names(c, out, depth + 1)


def trace_anchors():
    """{name: found} for the PRIVATE code objects the loader trace knows by name: the nested functions of
    core.delayed_load and the _load_* functions of periodictable/__init__.py.  They are optional
    instrumentation: a tree without them gives an empty (or poorer) trace, never another verdict."""
    import types
    import periodictable
    from periodictable import core
    names = set()
    for mod in (core, periodictable):
        for v in list(vars(mod).values()):
            if isinstance(v, types.FunctionType):
                _code_names(v.__code__, names)
            elif isinstance(v, type) and getattr(v, '__module__', '') == mod.__name__:
                for m in list(vars(v).values()):
                    f = getattr(m, '__func__', m)
                    if isinstance(f, types.FunctionType):
                        _code_names(f.__code__, names)
    out = OrderedDict((n, n in names) for n in TRACE_ANCHORS)
    for n in LOAD_GROUP:
        out[n] = n in names
    return out


def start_trace():
    """Record entries of the delayed-load closures, of the _load_* functions and of the
    loader init functions.  Foreign code objects are disabled at first sight.  The closures and the
    _load_* functions are found by name and are optional (see trace_anchors)."""
    if _trace_on[0]:
        return
    mon = sys.monitoring
    try:
        mon.use_tool_id(TOOL, 'pvmon-explore')
    except ValueError:
        pass
    import periodictable
    root = os.path.dirname(os.path.realpath(periodictable.__file__)) + os.sep
    pub = periodictable.elements

    def on_start(code, offset):
        fn = code.co_filename
        if not fn.startswith(root):
            rp = os.path.realpath(fn)
            if not rp.startswith(root):
                return mon.DISABLE
            fn = rp
        base = fn[len(root):]
        name = code.co_name
        try:
            if base == 'core.py' and name in ('getfn', 'setfn'):
                fr = sys._getframe(1)
                el = fr.f_locals.get('el')
                cls = type(el).__name__
                if cls == 'Ion' and type(el.__dict__.get('element')).__name__ == 'Isotope':
                    cls = 'IsotopeIon'
                _trace.append([name, fr.f_locals.get('propname'), cls])
                return None
            if base == 'core.py' and name == 'clearprops':
                _trace.append(['clearprops'])
                return None
            if base == '__init__.py' and name in LOAD_GROUP:
                _trace.append(['load', LOAD_GROUP[name]])
                return None
            if (base, name) in INIT_GROUP:
                fr = sys._getframe(1)
                tb = fr.f_locals.get('table')
                # was the call made from inside a delayed-load getter / setter?
                via = 'direct'
                f = fr.f_back
                while f is not None:
                    if f.f_code.co_name in ('getfn', 'setfn') and f.f_code.co_filename.endswith('core.py'):
                        via = f.f_code.co_name
                        break
                    f = f.f_back
                _trace.append(['init', INIT_GROUP[(base, name)], 'public' if tb is pub else 'private',
                               bool(fr.f_locals.get('reload', False)), via])
                return None
        except Exception as e:  # noqa - the monitor must never disturb the run
            _trace.append(['monitor-error', repr(e)[:100]])
            return None
        return mon.DISABLE

    mon.register_callback(TOOL, mon.events.PY_START, on_start)
    mon.set_events(TOOL, mon.events.PY_START)
    _trace_on[0] = True


def take_trace():
    out = list(_trace)
    del _trace[:]
    return out


def fired_groups(trace):
    """{group: how} for every loader that ran *and loaded* (got past its guard or has none):
    how is 'getter:<class of the object the property fired on>', 'setter:<class>' or 'direct'."""
    out = {}
    for i, rec in enumerate(trace):
        if rec[0] != 'init':
            continue
        g = rec[1]
        if g in out:
            continue
        how = 'direct'
        if rec[4] in ('getfn', 'setfn'):
            # class of the innermost enclosing getfn/setfn entry recorded before this init
            for prev in reversed(trace[:i]):
                if prev[0] == rec[4]:
                    how = ('getter:' if rec[4] == 'getfn' else 'setter:') + str(prev[2])
                    break
        out[g] = how
    return out


# --------------------------------------------------------------------------
# fork machinery (os.fork + pipes; never multiprocessing)
# --------------------------------------------------------------------------
def _child_main(w, fn, timeout):
    """Body of a forked child: run fn, write JSON to fd w, _exit."""
    code = 0
    try:
        signal.signal(signal.SIGALRM, signal.SIG_DFL)
        signal.alarm(int(timeout))
        try:
            res = ['ok', fn()]
        except BaseException:  # noqa
            res = ['err', traceback.format_exc()[-2000:]]
        try:
            data = json.dumps(res).encode()
        except Exception:
            data = json.dumps(['err', 'unserialisable result: ' + traceback.format_exc()[-1500:]]).encode()
        view_ = memoryview(data)
        while len(view_):
            n = os.write(w, view_[:65536])
            view_ = view_[n:]
    except BaseException:  # noqa
        code = 3
    finally:
        try:
            sys.stdout.flush()
            sys.stderr.flush()
        except Exception:
            pass
        os._exit(code)


def fork_call(fn, timeout=60):
    """Run fn() in a forked child, wait for it, return ['ok', result] | ['err', text] | ['dead', text]."""
    sys.stdout.flush()
    sys.stderr.flush()
    r, w = os.pipe()
    pid = os.fork()
    if pid == 0:
        os.close(r)
        _child_main(w, fn, timeout)
    os.close(w)
    chunks = []
    deadline = time.time() + timeout + 5
    dead = None
    while True:
        left = deadline - time.time()
        if left <= 0:
            try:
                os.kill(pid, signal.SIGKILL)
            except OSError:
                pass
            dead = 'killed after %ds' % timeout
            break
        ready, _, _ = select.select([r], [], [], min(left, 5.0))
        if ready:
            b = os.read(r, 1 << 20)
            if not b:
                break
            chunks.append(b)
    os.close(r)
    _, status = os.waitpid(pid, 0)
    if dead:
        return ['dead', dead]
    data = b''.join(chunks)
    if not data:
        return ['dead', 'no result (wait status %d)' % status]
    try:
        return json.loads(data.decode())
    except Exception:
        return ['dead', 'truncated result (wait status %d, %d bytes)' % (status, len(data))]


class ForkPool(object):
    """At most *n* forked children at a time, each running one callable and
    returning one JSON document over its own pipe."""

    def __init__(self, n, timeout=180):
        self.n = max(1, int(n))
        self.timeout = timeout
        self.running = {}   # read fd -> [pid, tag, chunks, deadline]

    def free(self):
        return self.n - len(self.running)

    def submit(self, tag, fn):
        sys.stdout.flush()
        sys.stderr.flush()
        r, w = os.pipe()
        pid = os.fork()
        if pid == 0:
            os.close(r)
            for fd in list(self.running):
                try:
                    os.close(fd)
                except OSError:
                    pass
            _child_main(w, fn, self.timeout)
        os.close(w)
        self.running[r] = [pid, tag, [], time.time() + self.timeout + 10]

    def wait(self):
        """Block until at least one child has finished; return [(tag, ['ok'|'err'|'dead', payload])]."""
        done = []
        while not done and self.running:
            ready, _, _ = select.select(list(self.running), [], [], 2.0)
            now = time.time()
            for fd in ready:
                b = os.read(fd, 1 << 20)
                if b:
                    self.running[fd][2].append(b)
                    continue
                pid, tag, chunks, _ = self.running.pop(fd)
                os.close(fd)
                _, status = os.waitpid(pid, 0)
                data = b''.join(chunks)
                try:
                    res = json.loads(data.decode()) if data else ['dead', 'no result (wait status %d)' % status]
                except Exception:
                    res = ['dead', 'truncated result (wait status %d)' % status]
                done.append((tag, res))
            for fd in [fd for fd, rec in self.running.items() if rec[3] < now]:
                pid, tag, chunks, _ = self.running.pop(fd)
                try:
                    os.kill(pid, signal.SIGKILL)
                except OSError:
                    pass
                os.close(fd)
                os.waitpid(pid, 0)
                done.append((tag, ['dead', 'killed after %ds' % self.timeout]))
        return done

    def run_all(self, tasks, on_result):
        """tasks: list of (tag, fn).  Calls on_result(tag, result) as children finish."""
        tasks = list(tasks)
        i = 0
        while i < len(tasks) or self.running:
            while i < len(tasks) and self.free() > 0:
                self.submit(*tasks[i])
                i += 1
            for tag, res in self.wait():
                on_result(tag, res)


# --------------------------------------------------------------------------
# pristine interpreter and the fork-tree walk
# --------------------------------------------------------------------------
def repo_root():
    return os.path.realpath(os.environ.get('VERIF_REPO', '/repo'))


def pycache_dir():
    here = os.path.dirname(os.path.dirname(os.path.abspath(__file__)))
    return os.path.join(os.environ.get('VERIF_OUT') or os.path.join(here, 'out'), 'C09', 'pycache')


def enable_bytecode_cache():
    """Byte-compile the package under test into a cache directory OUTSIDE the repository
    (sys.pycache_prefix), so that the thousands of interpreters started here do not each
    compile nsf.py / mass.py from source.  The repository itself is never written."""
    prefix = pycache_dir()
    try:
        os.makedirs(prefix, exist_ok=True)
        sys.pycache_prefix = prefix
        sys.dont_write_bytecode = False
        import compileall
        compileall.compile_dir(os.path.join(repo_root(), 'periodictable'), maxlevels=0, quiet=2, workers=1)
    except Exception:  # a missing cache only costs time
        pass
    return prefix


def fresh_env():
    env = dict(os.environ)
    env.pop('PYTHONDONTWRITEBYTECODE', None)
    env['PYTHONPYCACHEPREFIX'] = pycache_dir()
    return env


def pristine_import(expected=None):
    """Make this process the pristine interpreter: third-party numpy/pyparsing (not events),
    then `import periodictable`, and nothing else of the package.  Returns the package path.
    *expected*: the submodules a fresh interpreter holds right after `import periodictable` (reported
    by fresh_main); which helper modules the package imports for itself is the library's business, so
    without it only the modules that are events of the alphabet must not be loaded yet."""
    enable_bytecode_cache()
    import numpy  # noqa
    import pyparsing  # noqa
    import periodictable
    where = os.path.realpath(periodictable.__file__)
    if not where.startswith(repo_root() + os.sep):
        raise RuntimeError('periodictable imported from %s, not under %s' % (where, repo_root()))
    record_placeholders()
    loaded = sorted(m for m in sys.modules if m.startswith('periodictable.'))
    if expected is not None:
        if loaded != sorted(expected):
            raise RuntimeError('interpreter is not pristine: %r loaded, a fresh interpreter has %r after '
                               '`import periodictable`' % (loaded, sorted(expected)))
    else:
        early = [m for m in loaded if m.split('.', 1)[1] in SUBMODULES]
        if early:
            raise RuntimeError('interpreter is not pristine: %r' % early)
    start_trace()
    return where


def replay_here(history):
    """Apply a history in this (forked or fresh) interpreter; return the event values."""
    return [run_event(e) for e in history]


BATCHABLE = ('read', 'hasattr', 'getattr_d')


def expand_here(history, events, canon_vals, canon_digest, fine, want_digest, batch=True):
    """Runs in a forked child of the pristine interpreter: replay *history*, then apply every
    event of *events* to that state in a forked grandchild, and take the digest in another.

    batch=False: one grandchild per event.  batch=True: attribute events (read / hasattr /
    getattr-with-default) that left the abstract state unchanged, ran no loader code and
    returned the canonical value share a grandchild with the next attribute event; every
    event that changed anything, every calculator / import / init event, and every event
    whose value differs starts from a process that holds exactly the replayed history
    (a differing value seen later in a batch is re-run alone to attribute it)."""
    take_trace()
    replay_here(history)
    take_trace()
    s = abstract_state(fine)
    out = {}

    def one(name):
        v = run_event(name)
        s2 = abstract_state(fine)
        tr = take_trace()
        same = (name in canon_vals and v == canon_vals[name])
        return [name, True if same else _short(v, 600), s2, tr]

    def run_from(i):
        recs = []
        while i < len(events):
            name = events[i]
            ok = event_kind(name) in BATCHABLE
            if recs and not ok:
                break
            rec = one(name)
            recs.append(rec)
            i += 1
            if not (batch and ok and rec[1] is True and rec[2] == s and not rec[3]):
                break
        return recs

    i = 0
    while i < len(events):
        status, recs = fork_call(lambda i=i: run_from(i), timeout=120)
        if status != 'ok' or not recs:
            out[events[i]] = [status if status != 'ok' else 'err', recs]
            i += 1
            continue
        for j, rec in enumerate(recs):
            name = rec[0]
            prefix = [r[0] for r in recs[:j]]
            if rec[1] is not True and prefix:
                # differing value after pure events in the same grandchild: attribute it
                st2, alone = fork_call(lambda name=name: one(name), timeout=60)
                if st2 == 'ok' and alone[1] is not True:
                    rec, prefix = alone, []
            out[name] = ['ok', rec[1:] + [prefix]]
        i += len(recs)
    res = {'state': s, 'out': out}
    if want_digest:
        def dig():
            return diff_digest(digest(), canon_digest)
        res['digest'] = fork_call(dig, timeout=120)
    return res


class Walk(object):
    """Level-synchronous breadth-first walk over abstract loader states, run from the
    pristine interpreter.  Deterministic: the history kept for a state is the first in
    (level, lexicographic order of the event index sequence)."""

    def __init__(self, events, canon_vals, canon_digest, fine=False, cap=5000, nproc=10, chunk=64,
                 log=None, batch=True):
        self.batch = batch
        self.forks = 0
        self.events = list(events)
        self.index = {e: i for i, e in enumerate(self.events)}
        self.canon_vals = canon_vals
        self.canon_digest = canon_digest
        self.fine = fine
        self.cap = cap
        self.nproc = nproc
        self.chunk = chunk
        self.log = log or (lambda s: None)
        self.seen = OrderedDict()       # state -> first history
        self.alt = {}                   # state -> another history reaching it
        self.edges = {}                 # state -> {event: successor state}
        self.transitions = 0
        self.event_violations = []      # (history, event, observed value)
        self.digest_violations = []     # (history, ndiff, first entries, attribute names)
        self.digests = 0
        self.errors = []
        self.capped = False
        self.closed = False
        self.fired = {}                 # 'group/route/how' -> count
        self.kinds = {}
        self.levels = []
        self.inconsistent = []          # replay of a history gave another abstract state

    def run(self):
        t0 = time.time()
        root = abstract_state(self.fine)
        self.seen[root] = []
        frontier = [root]
        pool = ForkPool(self.nproc, timeout=300)
        while frontier:
            tasks = []
            for s in frontier:
                h = self.seen[s]
                for c in range(0, len(self.events), self.chunk):
                    evs = self.events[c:c + self.chunk]
                    want_digest = (c == 0)
                    tasks.append(((s, c), (lambda h=h, evs=evs, wd=want_digest, s=s: expand_here(
                        h, evs, self.canon_vals, self.canon_digest, self.fine, wd, self.batch))))
            results = {}
            pool.run_all(tasks, lambda tag, res: results.__setitem__(tag, res))
            new = []
            for s in frontier:                      # deterministic order
                h = self.seen[s]
                for c in range(0, len(self.events), self.chunk):
                    status, payload = results[(s, c)]
                    if status != 'ok':
                        self.errors.append('expand %r chunk %d: %s %s' % (h, c, status, str(payload)[-400:]))
                        continue
                    if payload['state'] != s:
                        self.inconsistent.append([h, s, payload['state']])
                        continue
                    if 'digest' in payload:
                        dstatus, dp = payload['digest']
                        if dstatus != 'ok':
                            self.errors.append('digest after %r: %s %s' % (h, dstatus, str(dp)[-400:]))
                        else:
                            self.digests += 1
                            if dp[0]:
                                self.digest_violations.append((h, dp[0], dp[1], dp[2]))
                    for name in self.events[c:c + self.chunk]:
                        estatus, ep = payload['out'][name]
                        if estatus != 'ok':
                            self.errors.append('event %s after %r: %s %s' % (name, h, estatus, str(ep)[-400:]))
                            continue
                        same, s2, tr, prefix = ep
                        self.transitions += 1
                        if not prefix:
                            self.forks += 1
                        k = event_kind(name)
                        self.kinds[k] = self.kinds.get(k, 0) + 1
                        if same is not True:
                            self.event_violations.append((h + prefix, name, same))
                        fired = fired_groups(tr)
                        for g in GROUPS:
                            # read off the abstract state (needs no trace): pending before, not after
                            if g not in fired and group_pending(s, g) and not group_pending(s2, g):
                                fired[g] = 'untraced'
                        for g, how in fired.items():
                            if not group_pending(s, g):
                                continue            # guard returned, or an explicit re-load
                            key = '%s/%s/%s' % (g, event_route(name), how)
                            self.fired[key] = self.fired.get(key, 0) + 1
                        for rec in tr:
                            if rec[0] == 'monitor-error':
                                self.errors.append('monitor error in %s: %s' % (name, rec[1]))
                        self.edges.setdefault(s, {})[name] = s2
                        if s2 not in self.seen:
                            if len(self.seen) >= self.cap:
                                self.capped = True
                                continue
                            self.seen[s2] = h + [name]
                            new.append(s2)
                        elif s2 != s and h + [name] != self.seen[s2] and s2 not in self.alt:
                            self.alt[s2] = h + [name]
            self.levels.append(len(frontier))
            self.log('level %d: expanded %d states, %d new, %d seen, %d transitions, %.1fs'
                     % (len(self.levels) - 1, len(frontier), len(new), len(self.seen), self.transitions,
                        time.time() - t0))
            frontier = new
        self.closed = not self.capped and not self.errors and not self.inconsistent
        return self

    def digest_histories(self, histories, nproc=None):
        """Digest after each given history (forked from the pristine interpreter);
        returns {index: [ndiff, entries, attrs, abstract state]} and appends failures to self.errors."""
        out = {}

        def task(h):
            def run():
                replay_here(h)
                s_after = abstract_state(self.fine)     # before the digest: digesting loads every group
                return diff_digest(digest(), self.canon_digest) + [s_after]
            return run
        pool = ForkPool(nproc or self.nproc, timeout=300)

        def got(tag, res):
            if res[0] != 'ok':
                self.errors.append('digest of %r: %s %s' % (histories[tag], res[0], str(res[1])[-300:]))
            else:
                out[tag] = res[1]
        pool.run_all([(i, task(h)) for i, h in enumerate(histories)], got)
        return out


# --------------------------------------------------------------------------
# fresh interpreters
# --------------------------------------------------------------------------
FRESH_CODE = ('import sys\n'
              'import periodictable\n'
              'from pvmon import explore\n'
              'explore.fresh_main(sys.argv[1])\n')


def fresh_main(arg):
    """Entry point of a fresh interpreter: replay, probe, report one JSON line."""
    import periodictable
    req = json.loads(arg)
    out = {'where': os.path.realpath(periodictable.__file__),
           'pristine': sorted(m for m in sys.modules if m.startswith('periodictable.'))}
    record_placeholders()                       # before any event: what the import left in the class dictionaries
    out['placeholders'] = placeholder_names()
    out['values'] = replay_here(req.get('history', []))
    out['state'] = abstract_state(False)        # after the history, before any probe
    if req.get('digest_before'):
        out['digest_before'] = digest()
    if req.get('events'):
        out['event_values'] = {e: run_event(e) for e in req['events']}
    probe = req.get('probe')
    if probe and probe != 'digest':
        out['probe'] = run_event(probe)
    if probe == 'digest' or req.get('digest'):
        out['digest'] = digest()
    sys.stdout.write('\n' + MARK + json.dumps(out) + '\n')
    sys.stdout.flush()


def fresh_run(history, probe=None, timeout=180, **extra):
    """Run a history (and a probe) in a fresh interpreter.  Returns the child's report, or
    {'error': text} when the interpreter died, timed out or imported another tree."""
    req = dict(extra)
    req['history'] = list(history)
    req['probe'] = probe
    env = fresh_env()
    try:
        p = subprocess.run([sys.executable, '-c', FRESH_CODE, json.dumps(req)], capture_output=True,
                           text=True, timeout=timeout, env=env)
    except subprocess.TimeoutExpired:
        return {'error': 'fresh interpreter timed out after %ds' % timeout}
    for line in p.stdout.splitlines():
        if line.startswith(MARK):
            try:
                out = json.loads(line[len(MARK):])
            except Exception as e:
                return {'error': 'unparsable report: %r' % e}
            if not out['where'].startswith(repo_root() + os.sep):
                return {'error': 'fresh interpreter imported %s, not under %s' % (out['where'], repo_root())}
            return out
    return {'error': 'fresh interpreter exit %d: %s' % (p.returncode, (p.stderr or p.stdout)[-1500:])}


def canonical(events):
    """Canonical order in a fresh interpreter: each group read once through an element
    (the activation group through an isotope) in registration order; then the digest,
    then the value of every event of *events* (one after the other in that interpreter),
    then the digest again (must be unchanged)."""
    return fresh_run(CANON, probe='digest', digest_before=True, events=list(events), states=True, timeout=300)


def random_history(rng, events, maxlen, p_other=0.35):
    """Random history of 1..maxlen events: with probability p_other the next event is a
    calculator / import / init / reinit event, otherwise an attribute event (uniform within the class)."""
    attr = [e for e in events if event_kind(e) in BATCHABLE]
    other = [e for e in events if event_kind(e) not in BATCHABLE]
    n = rng.randint(1, maxlen)
    out = []
    for _ in range(n):
        pool = other if (other and rng.random() < p_other) else (attr or other)
        out.append(pool[rng.randrange(len(pool))])
    return out
