"""./check selftest [ID ...] - sensitivity of the monitors.

Applies each catalogued break (seeded/<id>/patch.diff with meta.json, and
selftest/<PROP>-<slug>.diff) to a scratch copy of $VERIF_REPO made under a
mktemp directory outside /repo and /verif, runs the target property's quick
check against the copy and requires exit 1 with a VIOLATION line.  The copy
is removed right after each run.  Results go to out/selftest.json.
"""
import glob
import json
import os
import shutil
import subprocess
import sys
import tempfile
import time

HERE = os.path.dirname(os.path.dirname(os.path.abspath(__file__)))


def catalogue():
    items = []
    for meta in sorted(glob.glob(os.path.join(HERE, 'seeded', '*', 'meta.json'))):
        d = os.path.dirname(meta)
        m = json.load(open(meta))
        props = m.get('caught_by') or [m['property']]
        items.append({'name': 'seeded/' + os.path.basename(d), 'patch': os.path.join(d, 'patch.diff'),
                      'props': props, 'expect': m.get('expect', 'caught')})
    for meta in sorted(glob.glob(os.path.join(HERE, 'benign', '*', 'meta.json'))):
        d = os.path.dirname(meta)
        m = json.load(open(meta))
        items.append({'name': 'benign/' + os.path.basename(d), 'patch': os.path.join(d, 'patch.diff'),
                      'props': m.get('props') or [m['property']], 'expect': 'held'})
    for patch in sorted(glob.glob(os.path.join(HERE, 'selftest', '*.diff'))):
        base = os.path.basename(patch)
        items.append({'name': 'selftest/' + base, 'patch': patch, 'props': [base.split('-')[0].upper()],
                      'expect': 'caught'})
    return items


def run_one(item, repo, tier='quick'):
    tmp = tempfile.mkdtemp(prefix='pvmon_selftest_')
    copy = os.path.join(tmp, 'repo')
    try:
        shutil.copytree(repo, copy, ignore=shutil.ignore_patterns('.git', '__pycache__', '*.pyc', 'doc', 'build'))
        r = subprocess.run(['patch', '-p1', '-s', '-i', item['patch']], cwd=copy, capture_output=True, text=True)
        if r.returncode != 0:
            return {'name': item['name'], 'outcome': 'patch-failed', 'detail': (r.stdout + r.stderr)[-400:]}
        res = []
        for prop in item['props']:
            env = dict(os.environ, VERIF_REPO=copy, VERIF_NO_EVIDENCE='1', VERIF_OUT=os.path.join(tmp, 'out'))
            t0 = time.time()
            p = subprocess.run([os.path.join(HERE, 'check'), prop, '--tier', tier], env=env,
                               capture_output=True, text=True)
            caught = p.returncode == 1 and 'VIOLATION property=%s' % prop in p.stdout
            first = next((l for l in p.stdout.splitlines() if l.startswith('  check=')), '')
            res.append({'property': prop, 'rc': p.returncode, 'caught': caught, 'wall_s': round(time.time() - t0, 1),
                        'first': first[:300]})
        caught_any = any(r['caught'] for r in res)
        if item['expect'] == 'held':   # behaviour-preserving change: every check must exit 0
            ok = all(r['rc'] == 0 for r in res)
            return {'name': item['name'], 'outcome': 'held' if ok else 'ALARM-ON-BENIGN-CHANGE', 'runs': res}
        return {'name': item['name'], 'outcome': 'caught' if caught_any else 'MISSED', 'runs': res}
    finally:
        shutil.rmtree(tmp, ignore_errors=True)


def main(argv=None):
    argv = sys.argv[2:] if argv is None else argv
    want = [a.upper() for a in argv if not a.startswith('-')]
    repo = os.environ.get('VERIF_REPO', '/repo')
    items = [i for i in catalogue() if not want or set(i['props']) & set(want) or any(w.lower() in i['name'].lower() for w in want)]
    results = []
    missed = 0
    from concurrent.futures import ThreadPoolExecutor
    jobs = int(os.environ.get('VERIF_SELFTEST_JOBS', '4'))
    with ThreadPoolExecutor(max_workers=jobs) as pool:
        for item, r in zip(items, pool.map(lambda it: run_one(it, repo), items)):
            results.append(r)
            ok = (r['outcome'] == item['expect']) if item['expect'] == 'held' else \
                ((r['outcome'] == 'caught') == (item['expect'] == 'caught'))
            if not ok:
                missed += 1
            print('%-60s %s %s%s' % (r['name'], r['outcome'],
                                     ' '.join('%s:rc%d/%.0fs' % (x['property'], x['rc'], x['wall_s']) for x in r.get('runs', [])),
                                     '' if ok else '   <-- expected %s' % item['expect']))
            sys.stdout.flush()
    os.makedirs(os.path.join(HERE, 'out'), exist_ok=True)
    json.dump(results, open(os.path.join(HERE, 'out', 'selftest.json'), 'w'), indent=1)
    print('selftest: %d breaks, %d not as expected' % (len(items), missed))
    return 1 if missed else 0
