"""History machinery for C10 (private tables are isolated).

Self-contained: nothing here imports pvmon.explore (the C09 explorer).  The
module itself never imports periodictable at top level; every function that
needs the library imports it when called, so that the process that holds the
*pristine* interpreter decides when the library is first imported.

Vocabulary
----------
event      a stable string, executable from its name alone (see `Env.apply`):
             new:T1 | new:T2
             init:<T>:<group>                  module.init(T)
             pub.read:<group>:<route>          read through the public table
             pub.calc:<name>                   calculator call on the public table
             pub.parse:<k>                     formula(FORMULA_STRINGS[k]) with the public table
             read:<T>:<group>:<route>          the same read through T
             digest:<T>:<group>                full per-entry digest of a group of T
             mut:<T>:<group>:<variant>         attribute assignment / in-place mutation of data of T
             parse:<T>:<k>  mix:<T>:weight|volume     formula(s, table=T), mix_by_*(..., table=T)
             pickle:<T>:<kind>                 pickle round trip of atoms of T
history    list of event names; executed by `play` in ONE interpreter, either a
           fork of a pristine interpreter (`run_forked`) or a fresh `python -c`
           process (`run_fresh`).
group      one of GROUPS; 'neutron' is nsf, 'emission' is xsf.init_spectral_lines,
           'covrad' covalent_radius, 'crystal' crystal_structure, 'magff' magnetic_ff.

Legal-use model (DESIGN section 5, C10): init of density/activation needs mass on
the same table, nsf needs mass and density; a group of T is *comparable* with
the public canonical digest only while it is initialised, its digest
prerequisites are initialised and neither it nor a prerequisite was mutated
(mutating mass marks density, neutron, xray; mutating density marks neutron,
xray; a group initialised after one of its prerequisites was mutated is born
mutated).  Mutations are legal only on initialised groups.
"""
import collections
import hashlib
import json
import os
import pickle
import signal
import subprocess
import sys
import tempfile
import time
import traceback

GROUPS = ('mass', 'density', 'neutron', 'xray', 'emission', 'covrad', 'crystal', 'magff', 'activation')
LAZY = ('neutron', 'xray', 'emission', 'covrad', 'crystal', 'magff', 'activation')
TABLES = ('T1', 'T2')
INIT_PREREQ = {'density': ('mass',), 'activation': ('mass',), 'neutron': ('mass', 'density')}
# groups whose loader needs another group of the same table first: called too early the loader refuses (an
# exception the caller catches) - and must leave the table in a state from which the right order still works
PREMATURE = ('neutron', 'activation')
DIGEST_PREREQ = {'density': ('mass',), 'activation': ('mass',), 'neutron': ('mass', 'density'),
                 'xray': ('mass', 'density')}
DEPENDENTS = {'mass': ('density', 'neutron', 'xray'), 'density': ('neutron', 'xray')}
MODULE = {'mass': ('mass', 'init'), 'density': ('density', 'init'), 'neutron': ('nsf', 'init'),
          'xray': ('xsf', 'init'), 'emission': ('xsf', 'init_spectral_lines'),
          'covrad': ('covalent_radius', 'init'), 'crystal': ('crystal_structure', 'init'),
          'magff': ('magnetic_ff', 'init'), 'activation': ('activation', 'init')}
# class attribute that tells whether the public group is still waiting for its delayed load
LAZY_CLASS_ATTRS = {
    'neutron': (('Element', 'neutron'), ('Isotope', 'neutron')),
    'xray': (('Element', 'xray'), ('Ion', 'xray')),
    'emission': (('Element', 'K_alpha'), ('Element', 'K_beta1'), ('Element', 'K_alpha_units'),
                 ('Element', 'K_beta1_units')),
    'covrad': (('Element', 'covalent_radius'), ('Element', 'covalent_radius_units'),
               ('Element', 'covalent_radius_uncertainty')),
    'crystal': (('Element', 'crystal_structure'),),
    'magff': (('Element', 'magnetic_ff'),),
    'activation': (('Isotope', 'neutron_activation'),),
}
# attribute names that serve per-atom data of a group (heap walk roots, in addition to instance dicts)
SERVED = {
    'neutron': ('neutron',), 'xray': (), 'emission': ('K_alpha', 'K_beta1'),
    'covrad': ('covalent_radius', 'covalent_radius_uncertainty'), 'crystal': ('crystal_structure',),
    'magff': ('magnetic_ff',), 'activation': ('neutron_activation',), 'mass': (), 'density': (),
}
ISOTOPE_LEVEL = ('neutron', 'neutron_activation')

FORMULA_STRINGS = ('H2O', 'CaCO3+6H2O', 'D2O', 'O[18]H2', 'Fe{2+}Fe{3+}2O{2-}4', 'NaCl@2.16',
                   '(CH3)3CO[18]H', '5 g NaCl // 50 mL H2O@1', 'H[1]{+}2O{2-}',
                   '3 wt% NaCl@2.16 // H2O@1', 'Fe', 'aa:AGK', 'dna:ACGT',
                   # "<string>|<keyword>=<value>": the string parsed with that keyword as well
                   'aa:GGK|density=1.3', 'rna:ACGU|natural_density=1.5', 'H2O[18]|natural_density=1.0',
                   'CaCO3+6H2O|density=1.77')


def formula_call(k, tb=None):
    """formula(FORMULA_STRINGS[k][, keyword][, table=tb])."""
    import periodictable as pt
    text, kw = FORMULA_STRINGS[k], {}
    if '|' in text:
        text, rest = text.split('|', 1)
        name, value = rest.split('=')
        kw[name] = float(value)
    if tb is not None:
        kw['table'] = tb
    return pt.formula(text, **kw)

NFIELDS = ('b_c', 'b_c_i', 'b_c_complex', 'bp', 'bp_i', 'bm', 'bm_i', 'coherent', 'incoherent', 'total',
           'absorption', 'abundance', 'is_energy_dependent', 'nsf_table', '_number_density')

CHILD_ALARM_S = 120


# ---------------------------------------------------------------------------
# value normalisation
# ---------------------------------------------------------------------------
def norm(v, depth=0):
    """Hashable, picklable, order-independent rendering of a served value."""
    import numpy as np
    if v is None or isinstance(v, (bool, int, str)):
        return v
    if isinstance(v, (float, np.floating)):
        return 'nan' if v != v else float(v)
    if isinstance(v, (complex, np.complexfloating)):
        return ('c', repr(complex(v)))
    if isinstance(v, np.integer):
        return int(v)
    if isinstance(v, np.ndarray):
        a = np.ascontiguousarray(v)
        if a.dtype.kind in 'fc':
            a = np.nan_to_num(a, nan=-777.25)
        return ('nd', tuple(v.shape), hashlib.md5(a.tobytes()).hexdigest())
    if depth > 6:
        return ('deep', type(v).__name__)
    if isinstance(v, (list, tuple)):
        return tuple([x if type(x) is float and x == x else norm(x, depth + 1) for x in v])
    if isinstance(v, dict):
        return ('dict',) + tuple(sorted(((k if type(k) is str else repr(k), x if (type(x) is float and x == x) else norm(x, depth + 1))
                                         for k, x in v.items()), key=_first))
    if hasattr(v, '__dict__'):
        return (type(v).__name__, norm({k: x for k, x in vars(v).items() if k != 'element'}, depth + 1))
    return ('repr', repr(v)[:80])


def _first(kv):
    return kv[0]


def safe(fn):
    try:
        return norm(fn())
    except Exception as exc:  # the kind of exception is the served "value"
        return ('EXC', type(exc).__name__)


def short(v, n=90):
    s = repr(v)
    return s if len(s) <= n else s[:n - 3] + '...'


def value_kind(v):
    """Coarse symptom class of a normalised value (used by classifiers)."""
    if v is None:
        return 'None'
    if isinstance(v, tuple) and len(v) == 2 and v[0] == 'EXC':
        return 'EXC:' + str(v[1])
    if v == '<absent>':
        return 'absent'
    return 'value'


# ---------------------------------------------------------------------------
# digests: {entry: {field: normalised value}} per group
# ---------------------------------------------------------------------------
CONFIG = {'xray_elements': None,     # None = every element; else a set of symbols (quick tier)
          'force_all': True}         # force and digest every public group at the end of a history
XRAY_QUICK = ('n', 'H', 'C', 'O', 'Na', 'Cl', 'Si', 'Fe', 'Ni', 'Cu', 'Gd', 'Au', 'Pb', 'At', 'U', 'Cm', 'Og')
SHARED = '<record>'     # key of a sub-dictionary of fields shared by several entries (expanded by diff_digests)


def nf(v):
    """norm() with a fast path for the scalar types that make up 95 % of all fields."""
    t = type(v)
    if t is float:
        return v if v == v else 'nan'
    if v is None or t is int or t is str or t is bool:
        return v
    return norm(v)


def _entry(fast, slow):
    """One digest entry: `fast()` builds the field dictionary in one go; when anything raises, every
    field is evaluated on its own so that the exception is attributed to the field that raised it."""
    try:
        return fast()
    except Exception:
        return {name: safe(fn) for name, fn in slow()}


def _neutron_record(n, memo):
    key = id(n)
    if key not in memo:
        d = {}
        for f in NFIELDS:
            try:
                d[f] = nf(getattr(n, f))
            except Exception as exc:
                d[f] = ('EXC', type(exc).__name__)
        try:
            d['extra_fields'] = tuple(sorted(k for k in vars(n) if k not in NFIELDS))
        except Exception:
            d['extra_fields'] = ('<no vars>',)
        d['sld@1.8'] = safe(lambda: n.sld(wavelength=1.8))
        memo[key] = (d, n)      # keep n alive so that ids stay unique
    return memo[key][0]


def _neutron_fields(atom, memo):
    try:
        n = atom.neutron
    except Exception as exc:
        return {'record': ('EXC', type(exc).__name__)}
    return {SHARED: _neutron_record(n, memo), 'own_record': 'neutron' in vars(atom)}


def _xray_extra(x):
    return tuple(sorted(n for n in vars(x) if n not in ('element', '_table')))


def digest_group(table, g):
    """Every value the table serves for group g, per atom and field."""
    d = {}
    memo = {}
    xsel = CONFIG.get('xray_elements')
    for e in table:
        k = e.symbol
        if g == 'mass':
            d[k] = _entry(lambda: {'mass': nf(e.mass), '_mass_unc': nf(e._mass_unc)},
                          lambda: (('mass', lambda: e.mass), ('_mass_unc', lambda: e._mass_unc)))
            for iso in e:
                d['%s[%d]' % (k, iso.isotope)] = _entry(
                    lambda: {'mass': nf(iso.mass), '_mass_unc': nf(iso._mass_unc),
                             'abundance': nf(iso.abundance), '_abundance_unc': nf(iso._abundance_unc)},
                    lambda: (('mass', lambda: iso.mass), ('_mass_unc', lambda: iso._mass_unc),
                             ('abundance', lambda: iso.abundance), ('_abundance_unc', lambda: iso._abundance_unc)))
            if e.ions:
                q = e.ions[0]
                d['%s{%d}' % (k, q)] = {'mass': safe(lambda: e.ion[q].mass)}
        elif g == 'density':
            d[k] = _entry(lambda: {'density': nf(e.density), 'density_caveat': nf(e.density_caveat),
                                   'number_density': nf(e.number_density),
                                   'interatomic_distance': nf(e.interatomic_distance)},
                          lambda: (('density', lambda: e.density), ('density_caveat', lambda: e.density_caveat),
                                   ('number_density', lambda: e.number_density),
                                   ('interatomic_distance', lambda: e.interatomic_distance)))
            for iso in e:
                d['%s[%d]' % (k, iso.isotope)] = _entry(lambda: {'density': nf(iso.density)},
                                                        lambda: (('density', lambda: iso.density),))
        elif g == 'neutron':
            d[k] = _neutron_fields(e, memo)
            for iso in e:
                f = _neutron_fields(iso, memo)
                f['nuclear_spin'] = vars(iso).get('nuclear_spin', '<absent>')
                d['%s[%d]' % (k, iso.isotope)] = f
        elif g == 'xray':
            if xsel is not None and k not in xsel:
                continue
            d[k] = {'scattering_factors@8': safe(lambda: e.xray.scattering_factors(energy=8.0)),
                    'sld@8': safe(lambda: e.xray.sld(energy=8.0)),
                    'sftable': safe(lambda: e.xray.sftable),
                    'extra_fields': safe(lambda: _xray_extra(e.xray))}
            if e.ions:
                q = e.ions[0]
                d['%s{%d}' % (k, q)] = {
                    'scattering_factors@8': safe(lambda: e.ion[q].xray.scattering_factors(energy=8.0)),
                    'extra_fields': safe(lambda: _xray_extra(e.ion[q].xray))}
        elif g == 'emission':
            d[k] = {'K_alpha': safe(lambda: e.K_alpha), 'K_beta1': safe(lambda: e.K_beta1),
                    'K_alpha_units': safe(lambda: e.K_alpha_units), 'K_beta1_units': safe(lambda: e.K_beta1_units)}
        elif g == 'covrad':
            d[k] = _entry(lambda: {'covalent_radius': nf(e.covalent_radius),
                                   'covalent_radius_uncertainty': nf(e.covalent_radius_uncertainty),
                                   'covalent_radius_units': nf(e.covalent_radius_units)},
                          lambda: (('covalent_radius', lambda: e.covalent_radius),
                                   ('covalent_radius_uncertainty', lambda: e.covalent_radius_uncertainty),
                                   ('covalent_radius_units', lambda: e.covalent_radius_units)))
        elif g == 'crystal':
            d[k] = {'crystal_structure': safe(lambda: e.crystal_structure)}
        elif g == 'magff':
            d[k] = {'magnetic_ff': safe(lambda: {q: vars(f) for q, f in e.magnetic_ff.items()})}
        elif g == 'activation':
            # isotopes that carry their own rows are read in full; of the isotopes without rows the first
            # of each element is read through getattr (a class- or element-level stand-in would show there),
            # the others only record that they have no rows of their own
            first = True
            for iso in e:
                name = '%s[%d]' % (k, iso.isotope)
                if 'neutron_activation' in vars(iso) or first:
                    d[name] = {'neutron_activation': safe(lambda: [vars(r) for r in iso.neutron_activation]),
                               'own_rows': 'neutron_activation' in vars(iso)}
                    if 'neutron_activation' not in vars(iso):
                        first = False
                else:
                    d[name] = {'own_rows': False}
        else:
            raise ValueError(g)
    return d


def _expand(fields):
    if SHARED in fields:
        out = dict(fields[SHARED])
        out.update((k, v) for k, v in fields.items() if k != SHARED)
        return out
    return fields


def diff_digests(got, want, only_common_entries=False):
    """List of (entry, field, got, want) for every field that differs."""
    out = []
    for entry in sorted(set(got) | set(want)):
        if entry not in got or entry not in want:
            if not only_common_entries:
                out.append((entry, '<entry>', 'present' if entry in got else '<absent>',
                            'present' if entry in want else '<absent>'))
            continue
        a, b = got[entry], want[entry]
        if a == b:
            continue
        a, b = _expand(a), _expand(b)
        for f in sorted(set(a) | set(b)):
            va, vb = a.get(f, '<absent>'), b.get(f, '<absent>')
            if va != vb:
                out.append((entry, f, va, vb))
    return out


# ---------------------------------------------------------------------------
# reads and calculators (the same function serves the public table and T)
# ---------------------------------------------------------------------------
def _reads():
    R = collections.OrderedDict()
    R['mass'] = {
        'el': lambda tb: (tb.Fe.mass, tb.Fe._mass_unc),
        'iso': lambda tb: (tb.Fe[56].mass, tb.Fe[56].abundance),
        'ion': lambda tb: tb.Fe.ion[2].mass,
    }
    R['density'] = {
        'el': lambda tb: (tb.Fe.density, tb.Fe.number_density, tb.Fe.interatomic_distance),
        'iso': lambda tb: tb.Fe[56].density,
        'nodata': lambda tb: (tb.At.density, tb.At.density_caveat),
    }
    R['neutron'] = {
        'el': lambda tb: (tb.Fe.neutron.b_c, tb.Fe.neutron.coherent, tb.Fe.neutron.absorption, tb.Fe.neutron.total),
        'iso': lambda tb: (tb.Fe[56].neutron.b_c, tb.Fe[56].neutron.abundance, tb.H[2].neutron.b_c),
        'ion': lambda tb: tb.Fe.ion[2].neutron.b_c,
        'nodata': lambda tb: (tb.At.neutron.b_c, tb.At.neutron.total, tb.Po.neutron.b_c),
        'sld': lambda tb: tb.Fe.neutron.sld(wavelength=1.8),
        'hasattr': lambda tb: (hasattr(tb.Fe, 'neutron'), hasattr(tb.Fe[56], 'neutron')),
    }
    R['xray'] = {
        'el': lambda tb: tb.Fe.xray.sld(energy=8.0),
        'iso': lambda tb: tb.Fe[56].xray.scattering_factors(energy=8.0),
        'ion': lambda tb: tb.Fe.ion[2].xray.scattering_factors(energy=8.0),
        'nodata': lambda tb: tb[0].xray.sftable,
        'f0': lambda tb: tb.Fe.xray.f0(1.0),
    }
    R['emission'] = {
        'el': lambda tb: (tb.Cu.K_alpha, tb.Cu.K_beta1, tb.Cu.K_alpha_units, tb.Cu.K_beta1_units),
        'iso': lambda tb: tb.Cu[63].K_alpha,
        'ion': lambda tb: tb.Cu.ion[2].K_alpha,
        'nodata': lambda tb: getattr(tb.H, 'K_alpha', '<no attribute>'),
        'hasattr': lambda tb: (hasattr(tb.Cu, 'K_alpha'), hasattr(tb.H, 'K_beta1')),
    }
    R['covrad'] = {
        'el': lambda tb: (tb.Fe.covalent_radius, tb.Fe.covalent_radius_uncertainty, tb.Fe.covalent_radius_units),
        'iso': lambda tb: tb.Fe[56].covalent_radius,
        'ion': lambda tb: tb.Fe.ion[2].covalent_radius,
        'nodata': lambda tb: (tb.Og.covalent_radius, tb[0].covalent_radius),
    }
    R['crystal'] = {
        'el': lambda tb: tb.Fe.crystal_structure,
        'iso': lambda tb: tb.Fe[56].crystal_structure,
        'ion': lambda tb: tb.Fe.ion[2].crystal_structure,
        'nodata': lambda tb: (tb.At.crystal_structure, getattr(tb.Og, 'crystal_structure', '<no attribute>')),
    }
    R['magff'] = {
        'el': lambda tb: vars(tb.Fe.magnetic_ff[2]),
        'iso': lambda tb: sorted(tb.Fe[56].magnetic_ff),
        'ion': lambda tb: tb.Fe.ion[2].magnetic_ff[2].M_Q([0., 0.1, 0.2]),
        'nodata': lambda tb: getattr(tb.H, 'magnetic_ff', '<no attribute>'),
        'hasattr': lambda tb: (hasattr(tb.Fe, 'magnetic_ff'), hasattr(tb.H, 'magnetic_ff')),
    }
    R['activation'] = {
        'iso': lambda tb: [vars(r) for r in tb.Fe[58].neutron_activation],
        'ion': lambda tb: len(tb.Co[59].ion[2].neutron_activation),
        'nodata': lambda tb: getattr(tb.H[4], 'neutron_activation', '<no attribute>'),
        'hasattr': lambda tb: (hasattr(tb.Fe[58], 'neutron_activation'), hasattr(tb.Fe, 'neutron_activation')),
    }
    return R


READS = _reads()
# routes that need isotopes (created by mass.init) on a private table
ROUTE_NEEDS_MASS = {'iso'}
READ_NEEDS_MASS = {('activation', r) for r in READS['activation']} | {('neutron', 'iso'), ('neutron', 'hasattr')}


def _calc_neutron_sld():
    import periodictable as pt
    return pt.neutron_sld('Fe2O3', density=5.2, wavelength=1.8)


def _calc_neutron_scattering():
    import periodictable as pt
    return pt.neutron_scattering('Gd2O3', density=7.0, wavelength=0.5)


def _calc_xray_sld():
    import periodictable as pt
    return pt.xray_sld('Fe2O3', density=5.2, energy=8.0)


def _calc_xray_sld_kalpha():
    import periodictable as pt
    return pt.xray_sld('SiO2', density=2.2, wavelength=pt.Cu.K_alpha)


def _calc_formula_mass():
    import periodictable as pt
    f = pt.formula('CaCO3+6H2O')
    return (f.mass, str(f), f.mass_fraction[pt.elements.O] if hasattr(f, 'mass_fraction') else None)


def _calc_volume():
    import periodictable as pt
    return pt.formula('NaCl').volume()


def _calc_activation():
    from periodictable import activation
    env = activation.ActivationEnvironment(fluence=1e8, Cd_ratio=70, fast_ratio=50, location='c10')
    s = activation.Sample('Co', 1.0)
    s.calculate_activation(env, exposure=10, rest_times=[0, 1])
    return sorted((str(k.isotope), str(k.daughter), tuple(v)) for k, v in s.activity.items())


def _calc_fasta():
    from periodictable import fasta
    q = fasta.Sequence('x', 'AG', type='aa')
    return (q.mass, q.sld)


def _calc_magff():
    import periodictable as pt
    ion = pt.Fe.ion[2]
    return ion.magnetic_ff[ion.charge].M_Q([0., 0.1, 0.2])


def _calc_mix():
    import periodictable as pt
    f = pt.mix_by_weight('H2O', 2, 'NaCl', 1)
    return (str(f), f.mass)


CALCS = collections.OrderedDict([
    ('neutron_sld', (_calc_neutron_sld, ('neutron',))),
    ('neutron_scattering', (_calc_neutron_scattering, ('neutron',))),
    ('xray_sld', (_calc_xray_sld, ('xray',))),
    ('xray_sld_kalpha', (_calc_xray_sld_kalpha, ('xray', 'emission'))),
    ('formula_mass', (_calc_formula_mass, ())),
    ('volume', (_calc_volume, ('covrad',))),
    ('activation', (_calc_activation, ('activation',))),
    ('fasta', (_calc_fasta, ('neutron',))),
    ('magff', (_calc_magff, ('magff',))),
    ('mix', (_calc_mix, ())),
])

MUTATIONS = collections.OrderedDict([
    ('mass', ('assign',)),
    ('density', ('assign',)),
    ('neutron', ('assign', 'inplace', 'missing')),
    ('xray', ('inplace', 'assign')),
    ('emission', ('assign',)),
    ('covrad', ('assign',)),
    ('crystal', ('inplace', 'assign')),
    ('magff', ('inplace', 'assign')),
    ('activation', ('inplace', 'assign')),
])
PICKLE_KINDS = ('el', 'ion', 'iso', 'isoion', 'struct', 'kept')
# mutations that can only be written against private fields of the atoms (mass and density are read-only
# properties over _mass / _density / _abundance): optional, skipped on a tree that stores them otherwise
PRIVATE_FIELD_MUTATIONS = (('mass', 'assign'), ('density', 'assign'))


def apply_mutation(T, g, variant):
    """Attribute assignment to / in-place mutation of per-atom data of T (DESIGN section 5 C10)."""
    Fe = T.Fe
    if (g, variant) == ('mass', 'assign'):
        T.Cm._mass += 1
        Fe._mass += 1
        Fe[56]._mass += 1
        Fe[56]._abundance = 5
    elif (g, variant) == ('density', 'assign'):
        T.Cm._density += 1
        Fe._density += 1
        Fe.density_caveat = 'c10'
    elif (g, variant) == ('neutron', 'assign'):
        Fe.neutron.b_c = 99.
        Fe[56].neutron.total = 99.
        T.H[2].neutron.b_c_complex = 1 + 1j
    elif (g, variant) == ('neutron', 'inplace'):
        T.Gd.neutron.nsf_table[1][:] = 0
        T.Sm[149].neutron.nsf_table[0][0] = 7.
    elif (g, variant) == ('neutron', 'missing'):
        T.At.neutron.b_c = 5      # an atom without a row in the neutron table
    elif (g, variant) == ('xray', 'inplace'):
        Fe.xray.sftable[1] *= 2
    elif (g, variant) == ('xray', 'assign'):
        Fe.xray.newfield = 1
        Fe.ion[2].xray.newfield = 2
    elif (g, variant) == ('emission', 'assign'):
        Fe.K_alpha = 9.
        T.Cu.K_beta1 = 8.
        T.H.K_alpha = 1.
    elif (g, variant) == ('covrad', 'assign'):
        Fe.covalent_radius = 9.
        Fe.covalent_radius_uncertainty = 9.
        T.Og.covalent_radius = 1.
    elif (g, variant) == ('crystal', 'inplace'):
        Fe.crystal_structure['a'] = 9.
        T.Cu.crystal_structure['c10'] = 1
    elif (g, variant) == ('crystal', 'assign'):
        T.At.crystal_structure = {'symmetry': 'c10'}
        T.Ni.crystal_structure = None
    elif (g, variant) == ('magff', 'inplace'):
        Fe.magnetic_ff[2].j0 = (1, 2, 3, 4, 5, 6, 7)
        Fe.magnetic_ff[9] = Fe.magnetic_ff[3]
        T.Co.magnetic_ff.pop(0, None)
        T.Co.magnetic_ff[1].j2 = (0,) * 7
    elif (g, variant) == ('magff', 'assign'):
        T.H.magnetic_ff = {}
        T.Ni.magnetic_ff = {2: T.Ni.magnetic_ff[2]}
    elif (g, variant) == ('activation', 'inplace'):
        Fe[58].neutron_activation[0].thermalXS = 99.
        Fe[58].neutron_activation.append(Fe[58].neutron_activation[0])
        if len(T.Co[59].neutron_activation) > 1:
            del T.Co[59].neutron_activation[-1]
        T.Co[59].neutron_activation[0].Thalf_hrs = 1.
    elif (g, variant) == ('activation', 'assign'):
        Fe[56].neutron_activation = []
        T.Au[197].neutron_activation = T.Au[197].neutron_activation[:1]
    else:
        raise ValueError('unknown mutation %s:%s' % (g, variant))


# ---------------------------------------------------------------------------
# event alphabet
# ---------------------------------------------------------------------------
def pub_events():
    ev = []
    for g, routes in READS.items():
        for r in routes:
            ev.append('pub.read:%s:%s' % (g, r))
    for c in CALCS:
        ev.append('pub.calc:%s' % c)
    for k in range(len(FORMULA_STRINGS)):
        ev.append('pub.parse:%d' % k)
    return ev


def event_groups(name):
    """Lazy groups of the PUBLIC table an event reads (structural, from the name)."""
    p = name.split(':')
    if p[0] == 'pub.read':
        return (p[1],)
    if p[0] == 'pub.calc':
        return CALCS[p[1]][1]
    return ()


def event_kind(name):
    return name.split(':')[0]


def all_event_names():
    ev = ['new:T1', 'new:T2'] + pub_events()
    for T in TABLES:
        ev += ['init:%s:%s' % (T, g) for g in GROUPS]
        ev += ['init0:%s:%s' % (T, g) for g in PREMATURE]
        ev += ['read:%s:%s:%s' % (T, g, r) for g in READS for r in READS[g]]
        ev += ['digest:%s:%s' % (T, g) for g in GROUPS]
        ev += ['mut:%s:%s:%s' % (T, g, v) for g in MUTATIONS for v in MUTATIONS[g]]
        ev += ['parse:%s:%d' % (T, k) for k in range(len(FORMULA_STRINGS))]
        ev += ['parse0:%s:%d' % (T, k) for k in range(len(FORMULA_STRINGS))]
        ev += ['mix:%s:weight' % T, 'mix:%s:volume' % T]
        ev += ['pickle:%s:%s' % (T, k) for k in PICKLE_KINDS]
    return ev


_ALPHABET = frozenset(all_event_names())


# ---------------------------------------------------------------------------
# class-dictionary state of the public loaders
# ---------------------------------------------------------------------------
# The objects `import periodictable` leaves in the class dictionaries under the lazy names (the
# delayed-load placeholders), recorded by identity in the pristine interpreter (pristine_import:
# the parent of every fork, and the start of every fresh interpreter) before any event ran.  An
# attribute is 'pending' exactly while the class dictionary still holds that very object: a loader
# deletes or replaces it.  Nothing inside the placeholder (type of its accessors, closure or
# function names) is looked at, so any implementation of core.delayed_load is recognised.
_PLACEHOLDERS = {}          # (class name, attribute name) -> object (kept alive: identities stay unique)
_placeholders_recorded = [False]


def record_placeholders(force=False):
    if _placeholders_recorded[0] and not force:
        return _PLACEHOLDERS
    from periodictable import core
    _PLACEHOLDERS.clear()
    for g in LAZY:
        for cname, a in LAZY_CLASS_ATTRS[g]:
            v = vars(getattr(core, cname)).get(a, _PLACEHOLDERS)      # _PLACEHOLDERS: a private 'absent' marker
            if v is not _PLACEHOLDERS and hasattr(type(v), '__get__'):
                _PLACEHOLDERS[(cname, a)] = v
    _placeholders_recorded[0] = True
    return _PLACEHOLDERS


def _attr_kind(cls, name):
    d = vars(cls)
    if name not in d:
        return 'absent'
    v = d[name]
    ph = _PLACEHOLDERS.get((cls.__name__, name))
    if ph is not None and v is ph:
        return 'pending'
    if isinstance(v, property) or (hasattr(type(v), '__get__') and hasattr(type(v), '__set__')):
        return 'prop'
    return 'data'


def loader_state():
    """{group: tuple of kinds of its class attributes} for the lazy groups."""
    from periodictable import core
    record_placeholders()
    classes = {'Element': core.Element, 'Isotope': core.Isotope, 'Ion': core.Ion}
    return {g: tuple(_attr_kind(classes[c], a) for c, a in LAZY_CLASS_ATTRS[g]) for g in LAZY}


def pristine_snapshot():
    """What 'the interpreter every history is forked from is still pristine' is compared with: taken
    right after the import, compared again at the end of the run (public observations only: the loader
    state above, the names in elements.properties and the registry of tables when the library has one)."""
    import periodictable
    from periodictable import core
    reg = getattr(core, 'PRIVATE_TABLES', None)
    return {'loader_state': loader_state(), 'properties': list(periodictable.elements.properties),
            'tables': len(reg) if hasattr(reg, '__len__') else None}


def pending_groups(state=None):
    state = state or loader_state()
    return sorted(g for g, kinds in state.items() if 'pending' in kinds)


# ---------------------------------------------------------------------------
# atom ownership, heap walk
# ---------------------------------------------------------------------------
def atom_key(a):
    from periodictable import core
    q = 0
    if isinstance(a, core.Ion):
        q = a.charge
        a = a.element
    if isinstance(a, core.Isotope):
        return (a.element.number, a.isotope, q)
    return (a.number, 0, q)


def atom_label(a):
    z, iso, q = atom_key(a)
    return 'Z%d%s%s' % (z, '[%d]' % iso if iso else '', '{%+d}' % q if q else '')


def belongs_to(table, a):
    """True when `a` IS the object that `table` serves for the same (Z, A, charge)."""
    from periodictable import core
    try:
        if isinstance(a, core.Ion):
            base = a.element
            if not belongs_to(table, base):
                return False
            return _ion_of(base, a.charge) is a
        if isinstance(a, core.Isotope):
            return _isotope_of(table[a.element.number], a.isotope) is a and table[a.element.number] is a.element
        if isinstance(a, core.Element):
            return table[a.number] is a
    except Exception:
        return False
    return False


def _isotope_of(el, number):
    """The isotope object `el` serves for mass number `number`, or None.  Private fast path (the isotope
    map), public route otherwise (Element.__getitem__ raises KeyError for an unknown isotope)."""
    m = getattr(el, '_isotopes', None)
    if isinstance(m, dict):
        return m.get(number)
    try:
        return el[number]
    except KeyError:
        return None


def _ion_of(base, charge):
    """The ion object `base` serves for `charge`, or None.  Private fast path (the map of ions created so
    far, which creates nothing), public route otherwise (base.ion[charge], which creates the ion when it
    does not exist yet: the created object then is not the one asked about)."""
    m = getattr(getattr(base, 'ion', None), 'ionset', None)
    if isinstance(m, dict):
        return m.get(charge)
    try:
        return base.ion[charge]
    except (ValueError, KeyError):
        return None


def _created_ions(atom_):
    """(charge, ion) of the ions created so far; none when the library does not expose that map."""
    m = getattr(getattr(atom_, 'ion', None), 'ionset', None)
    return sorted(m.items()) if isinstance(m, dict) else []


def formula_atoms(f):
    """Every atom object a Formula refers to: keys of .atoms and leaves of .structure."""
    from periodictable import core
    out = list(f.atoms.keys())

    def rec(s):
        for count, part in s:
            if core.isatom(part):
                out.append(part)
            else:
                rec(part)
    rec(f.structure)
    return out


def table_atoms(table):
    """(entry label, atom) for every element, isotope and already created ion."""
    for e in table:
        yield e.symbol, e
        for q, ion in _created_ions(e):
            yield '%s{%d}' % (e.symbol, q), ion
        for iso in e:
            yield '%s[%d]' % (e.symbol, iso.isotope), iso
            for q, ion in _created_ions(iso):
                yield '%s[%d]{%d}' % (e.symbol, iso.isotope, q), ion


def heap_walk(tables, dataless=()):
    """tables: {label: (PeriodicTable, groups whose data the table carries)}.

    Follows, from every atom of every table, the instance dictionary and
    getattr of the served attribute names of the given groups, then
    recursively instance dictionaries, dict keys/values, list/tuple/set items
    and ndarray bases.  Returns (records, stats): one record per mutable object
    (dict, list, set, ndarray, bytearray, object with __dict__ that is not an
    atom/table/class/module/function) reached from two or more tables, and
    one per atom reached from a table that does not own it.
    """
    import types
    import numpy as np
    from periodictable import core
    ATOMS = (core.Element, core.Isotope, core.Ion)
    SKIP = (type, types.ModuleType, types.FunctionType, types.MethodType, types.BuiltinFunctionType,
            property, core.PeriodicTable)
    IMMUT = (bool, int, float, complex, str, bytes, np.generic, type(None))
    FAST = frozenset((bool, int, float, complex, str, bytes, type(None)))
    ATOMSET = frozenset(ATOMS)
    MUT = (dict, list, set, bytearray, np.ndarray)
    MUTSET = frozenset(MUT)
    PLAIN = frozenset((dict, list, tuple, set, frozenset, core.IonSet))
    nat = [0]
    nobj = [0, 0]
    dataless = set(dataless)
    owner = {}
    for label, (tb, _) in tables.items():
        for entry, a in table_atoms(tb):
            owner[id(a)] = label
    class_level = {}
    for cls in (core.Element, core.Isotope, core.Ion):
        for k, v in vars(cls).items():
            class_level[id(v)] = '%s.%s' % (cls.__name__, k)
    reach = {}      # id -> {label: [paths]}
    roots = {}      # id -> {label: [entries that serve the object directly]}
    objs = {}       # id -> object (kept alive)
    foreign = []
    stats = collections.Counter()

    for label, (tb, groups) in tables.items():
        seen = set()
        names_el = tuple(n for g in GROUPS if g in groups for n in SERVED[g])
        names_iso = tuple(n for n in names_el if n in ISOTOPE_LEVEL)

        def walk(o, path, root_entry, depth):
            t = type(o)
            if t in FAST:
                return
            oid = id(o)
            if t in ATOMSET or isinstance(o, ATOMS):
                nat[0] += 1
                if owner.get(oid) != label:
                    if len(foreign) < 20:
                        foreign.append({'from_table': label, 'path': path, 'atom': atom_label(o),
                                        'atom_owner': owner.get(oid) or 'unknown table'})
                    stats['foreign_atoms'] += 1
                return
            if t not in PLAIN:
                if isinstance(o, IMMUT) or isinstance(o, SKIP):
                    return
            mutable = t in MUTSET or isinstance(o, MUT) or hasattr(o, '__dict__')
            if mutable:
                if depth == 0:
                    r = roots.setdefault(oid, {}).setdefault(label, [])
                    r.append(root_entry)
                objs[oid] = o
            if oid in seen:
                return
            seen.add(oid)
            nobj[0] += 1
            if mutable:
                nobj[1] += 1
                p = reach.setdefault(oid, {}).setdefault(label, [])
                if len(p) < 3:
                    p.append(path)
            if depth > 12:
                return
            if isinstance(o, dict):
                for k, v in o.items():
                    if type(k) not in FAST:
                        walk(k, path + '<key>', root_entry, depth + 1)
                    if type(v) not in FAST:
                        walk(v, '%s[%r]' % (path, k), root_entry, depth + 1)
            elif isinstance(o, (list, tuple, set, frozenset)):
                for i, v in enumerate(o):
                    if type(v) not in FAST:
                        walk(v, '%s[%d]' % (path, i), root_entry, depth + 1)
            elif isinstance(o, np.ndarray):
                if o.base is not None:
                    walk(o.base, path + '.base', root_entry, depth + 1)
                if o.dtype == object:
                    for i, v in enumerate(o.flat):
                        walk(v, '%s.flat[%d]' % (path, i), root_entry, depth + 1)
            elif hasattr(o, '__dict__'):
                for k, v in list(vars(o).items()):
                    if type(v) not in FAST:
                        walk(v, '%s.%s' % (path, k), root_entry, depth + 1)

        for entry, a in table_atoms(tb):
            stats['atoms_walked'] += 1
            for k, v in list(vars(a).items()):
                if type(v) in FAST:
                    continue
                if k in ('element', 'ion', '_isotopes'):
                    # structure of the table itself (parent atom, IonSet, isotope map): walked for shared
                    # containers and for atoms of another table, but not a root of served data
                    walk(v, '%s.%s' % (entry, k), entry, 1)
                    continue
                walk(v, '%s.%s' % (entry, k), entry, 0)
            if isinstance(a, core.Ion):
                continue
            for n in (names_iso if isinstance(a, core.Isotope) else names_el):
                try:
                    v = getattr(a, n)
                except Exception:
                    continue
                if type(v) not in FAST:
                    walk(v, '%s.%s' % (entry, n), entry, 0)

    stats['atom_refs'] = nat[0]
    stats['objects_walked'] = nobj[0]
    stats['mutable_objects'] = nobj[1]
    records = []
    for oid, by in reach.items():
        if len(by) < 2:
            continue
        o = objs.get(oid)
        r = roots.get(oid, {})
        served = sorted(set(e for lab in r for e in r[lab]))
        attr = sorted(set(p.split('.', 1)[1].split('.')[0].split('[')[0] for lab in by for p in by[lab] if '.' in p))
        rec = {
            'object_type': type(o).__name__,
            'tables': sorted(by),
            'paths': {lab: by[lab][:2] for lab in sorted(by)},
            'root_attrs': attr,
            'class_level': class_level.get(oid),
            'served_directly_to': {lab: len(r.get(lab, ())) for lab in sorted(by)},
            'served_sample': served[:6],
            'served_only_to_dataless': (bool(served) and all(e in dataless for e in served)) if attr == ['neutron'] else None,
            'depth0': bool(r),
        }
        records.append(rec)
    records.sort(key=lambda x: (x['object_type'], x['root_attrs'], x['paths'].get('public', [''])[0] if x['paths'].get('public') else ''))
    stats['shared_objects'] = len(records)
    return records, foreign, dict(stats)


# ---------------------------------------------------------------------------
# executing a history
# ---------------------------------------------------------------------------
class Env(object):
    """Executes events in the current interpreter and checks clauses (a)-(f)."""

    def __init__(self, canon, max_entries=6):
        self.canon = canon
        self.tables = {}
        self.inited = {}
        self.mutated = {}
        self.init_order = []
        self.viol = []
        self.counts = collections.Counter()
        self.early_inits = []       # (index, table, group): init(T) while the public group was pending
        self.late_inits = []
        self.transitions = []
        self.skipped = []
        self.index = -1
        self.event = None
        self.max_entries = max_entries
        self.heap_stats = {}
        self.harness = []

    # -- bookkeeping ---------------------------------------------------
    def abstract_state(self):
        st = loader_state()
        return (tuple(sorted(st.items())),
                tuple(sorted((T, tuple(sorted(self.inited[T])), tuple(sorted(self.mutated[T] & self.inited[T])))
                             for T in self.tables)))

    def comparable(self, T, g):
        if g not in self.inited[T] or g in self.mutated[T]:
            return False
        for p in DIGEST_PREREQ.get(g, ()):
            if p not in self.inited[T] or p in self.mutated[T]:
                return False
        return True

    def legal(self, name):
        p = name.split(':')
        k = p[0]
        if len(p) < 2 or name not in _ALPHABET:
            return False
        if k == 'new':
            return p[1] in TABLES and p[1] not in self.tables
        if k.startswith('pub.'):
            return True
        T = p[1]
        if T not in self.tables:
            return False
        have = self.inited[T]
        if k == 'init':
            return p[2] in GROUPS and p[2] not in have and all(q in have for q in INIT_PREREQ.get(p[2], ()))
        if k == 'init0':
            return p[2] in PREMATURE and p[2] not in have and not all(q in have for q in INIT_PREREQ.get(p[2], ()))
        if k == 'read':
            return p[2] in READS and p[3] in READS[p[2]]
        if k == 'digest':
            return p[2] in have and all(q in have for q in DIGEST_PREREQ.get(p[2], ()))
        if k == 'mut':
            return p[2] in have and p[3] in MUTATIONS.get(p[2], ()) and \
                all(q in have for q in DIGEST_PREREQ.get(p[2], ()) if p[2] in ('neutron', 'activation'))
        if k in ('parse', 'mix'):
            return 'mass' in have and 'density' in have
        if k == 'parse0':
            return 'mass' not in have
        if k == 'pickle':
            return p[2] in ('el', 'ion', 'kept') or 'mass' in have
        return False

    def violation(self, kind, clause, table, group, msg, symptom='', entries=(), **extra):
        ent = [[e, f, short(a), short(b)] for e, f, a, b in list(entries)[:self.max_entries]]
        kinds = sorted(set(value_kind(a) for _, _, a, _ in entries))
        rec = {'kind': kind, 'clause': clause, 'table': table, 'group': group, 'symptom': symptom,
               'msg': msg, 'event': self.event, 'index': self.index,
               'entries': ent, 'n_entries': len(entries),
               'fields': sorted(set(f for _, f, _, _ in entries)),
               'got_kinds': kinds,
               'entry_names': sorted(set(e for e, _, _, _ in entries))[:400]}
        rec.update(extra)
        self.viol.append(rec)
        return rec

    def compare_digest(self, table_label, tb, g, kind, clause, where, reference=None, only_common=False):
        self.counts['digest_comparisons'] += 1
        d = digest_group(tb, g)
        want = self.canon['digest'][g] if reference is None else reference
        self.counts['entries_compared'] += len(d)
        if g == 'xray' and CONFIG.get('xray_elements') is not None:
            only_common = True      # the quick tier digests a fixed subset of the elements
        diffs = diff_digests(d, want, only_common_entries=only_common)
        if diffs:
            self.report_diffs(kind, clause, table_label, g, diffs,
                              '%s: %s table serves' % (where, table_label))
        return d

    def report_diffs(self, kind, clause, table_label, g, diffs, lead, **extra):
        """One record per *class of differing entries* (so that two mechanisms acting on one group in
        one history stay two records): for the neutron group 'lost-own-record' (the atom served its own
        record canonically and now serves something else), 'atom-without-neutron-row', 'atom-with-data';
        for the other groups the kinds of the values now served (None / an exception / another value)."""
        dl = set(self.canon.get('dataless_neutron', ()))
        lost = set(e for e, f, a, b in diffs if f == 'own_record' and a is False and b is True)
        per_entry = collections.OrderedDict()
        for t in diffs:
            per_entry.setdefault(t[0], []).append(t)
        classes = collections.OrderedDict()
        for entry, ts in per_entry.items():
            if g == 'neutron':
                c = 'lost-own-record' if entry in lost else ('atom-without-neutron-row' if entry in dl else 'atom-with-data')
            else:
                c = '+'.join(sorted(set(value_kind(a) for _, _, a, _ in ts)))
            classes.setdefault(c, []).extend(ts)
        for c, ts in classes.items():
            self.violation(kind, clause, table_label, g,
                           '%s %d differing value(s) in group %s [%s], e.g. %s.%s = %s, expected %s'
                           % (lead, len(ts), g, c, ts[0][0], ts[0][1], short(ts[0][2], 60), short(ts[0][3], 60)),
                           symptom='digest-differs:' + c, entries=ts, item=c, **extra)

    # -- events ----------------------------------------------------------
    def apply(self, name):
        self.index += 1
        self.event = name
        if not self.legal(name):
            self.skipped.append(name)
            self.counts['skipped_illegal'] += 1
            return
        before = self.abstract_state()
        pend = pending_groups(dict(before[0]))
        self.transitions.append(hashlib.blake2b(repr((before, name)).encode(), digest_size=8).hexdigest())
        k = event_kind(name)
        self.counts['events.' + k] += 1
        getattr(self, '_ev_' + k.replace('.', '_'))(name.split(':'), pend)

    def _ev_new(self, p, pend):
        from periodictable import core
        T = p[1]
        self.tables[T] = core.PeriodicTable('c10_%s_%d' % (T, os.getpid()))
        self.inited[T] = set()
        self.mutated[T] = set()

    def _ev_init(self, p, pend):
        import importlib
        T, g = p[1], p[2]
        mod = importlib.import_module('periodictable.' + MODULE[g][0])
        # the import itself may touch the public table (none does today); re-read the pending set
        pend = pending_groups()
        if g in LAZY:
            (self.early_inits if g in pend else self.late_inits).append([self.index, T, g])
            self.counts['init.%s.%s_public_touch' % (g, 'before' if g in pend else 'after')] += 1
        else:
            self.counts['init.%s' % g] += 1
        try:
            getattr(mod, MODULE[g][1])(self.tables[T])
        except Exception as exc:
            self.violation('init-exception', 'b', T, g,
                           '%s.%s(%s) raised %s: %s' % (MODULE[g][0], MODULE[g][1], T, type(exc).__name__, str(exc)[:120]),
                           symptom='EXC:' + type(exc).__name__, traceback=traceback.format_exc()[-600:])
            return
        self.inited[T].add(g)
        self.init_order.append((T, g))
        if g == 'neutron':
            # the record caches the number density of T's own element at init time
            tb = self.tables[T]
            self.counts['derived_value_checks'] += 1
            want = safe(lambda: tb.Fe.number_density)
            if hasattr(tb.Fe.neutron, '_number_density'):
                # private field of the record (optional instrumentation: exact comparison)
                got, field = safe(lambda: tb.Fe.neutron._number_density), '_number_density'
                ok = got == want
            else:
                # public route: real sld of a wavelength-independent scatterer = N b_c (documented in
                # nsf.neutron_scattering): N [1/cm^3] * 1e-24 * b_c [fm] * 10 in 1e-6/A^2
                self.counts['derived_value_checks.public_route'] += 1
                field = 'sld()[0] / (10 b_c 1e-24)'
                got = safe(lambda: tb.Fe.neutron.sld(wavelength=1.8)[0] / (10. * tb.Fe.neutron.b_c * 1e-24))
                ok = (isinstance(got, float) and isinstance(want, float) and abs(got - want) <= 1e-9 * abs(want))
            if not ok:
                self.violation('private-derived', 'b', T, 'neutron',
                               '%s.Fe.neutron.%s = %s right after nsf.init(%s), %s.Fe.number_density = %s'
                               % (T, field, short(got, 40), T, T, short(want, 40)),
                               symptom='derived-differs', entries=[('Fe', '_number_density', got, want)], item='derived')
        if any(q in self.mutated[T] for q in set(INIT_PREREQ.get(g, ())) | set(DIGEST_PREREQ.get(g, ()))):
            self.mutated[T].add(g)      # derived from mutated prerequisites: not comparable

    def _ev_init0(self, p, pend):
        """module.init(T) before the groups it needs: the loader may refuse (the caller catches the exception).  Whatever it
        does, the documented order - prerequisites, then this loader - must afterwards give a complete table; the
        digest after the later init:<T>:<g> event decides."""
        import importlib
        T, g = p[1], p[2]
        mod = importlib.import_module('periodictable.' + MODULE[g][0])
        try:
            getattr(mod, MODULE[g][1])(self.tables[T])
        except Exception:
            self.counts['premature_init.refused'] += 1
            return
        # accepted without its prerequisites: the group counts as initialised, its values are not comparable
        self.counts['premature_init.accepted'] += 1
        self.inited[T].add(g)
        self.init_order.append((T, g))
        self.mutated[T].add(g)

    def _pub_value(self, name, fn):
        self.counts['public_event_comparisons'] += 1
        v = safe(fn)
        want = self.canon['events'].get(name, '<no canonical value>')
        if v != want:
            self.violation('public-event', 'a', 'public', '+'.join(event_groups(name)) or '-',
                           'public %s = %s, canonical %s' % (name, short(v, 70), short(want, 70)),
                           symptom=value_kind(v), entries=[(name, 'value', v, want)], item='%s=%s' % (name, value_kind(v)))

    def _ev_pub_read(self, p, pend):
        import periodictable as pt
        g, r = p[1], p[2]
        if g in pend:
            self.counts['public_first_touch.%s' % g] += 1
        self._pub_value(':'.join(p), lambda: READS[g][r](pt.elements))

    def _ev_pub_calc(self, p, pend):
        self._pub_value(':'.join(p), CALCS[p[1]][0])

    def _ev_pub_parse(self, p, pend):
        self._pub_value(':'.join(p), lambda: _parse_value(None, int(p[1])))
        self._check_formula_atoms(None, int(p[1]), 'public')

    def _ev_read(self, p, pend):
        T, g, r = p[1], p[2], p[3]
        tb = self.tables[T]
        v = safe(lambda: READS[g][r](tb))
        needs_mass = r in ROUTE_NEEDS_MASS or (g, r) in READ_NEEDS_MASS
        if self.comparable(T, g) and (not needs_mass or 'mass' in self.inited[T]):
            self.counts['private_read_comparisons'] += 1
            want = self.canon['events']['pub.read:%s:%s' % (g, r)]
            if v != want:
                self.violation('private-fresh', 'b', T, g,
                               '%s read %s:%s = %s, public canonical %s' % (T, g, r, short(v, 70), short(want, 70)),
                               symptom=value_kind(v), entries=[('read:%s:%s' % (g, r), 'value', v, want)],
                               item='read:%s:%s=%s' % (g, r, value_kind(v)))
        else:
            self.counts['private_reads_not_comparable'] += 1
            if g not in self.inited[T] and g in pend:
                self.counts['public_first_touch_through_private_atom.%s' % g] += 1

    def _ev_digest(self, p, pend):
        T, g = p[1], p[2]
        if self.comparable(T, g):
            self.compare_digest(T, self.tables[T], g, 'private-fresh', 'b', 'event %s' % ':'.join(p))
        else:
            digest_group(self.tables[T], g)     # still a read of T
            self.counts['private_digests_not_comparable'] += 1

    def _ev_mut(self, p, pend):
        T, g, variant = p[1], p[2], p[3]
        affected = (g,) + DEPENDENTS.get(g, ())
        others = [U for U in self.tables if U != T]
        pre = {}
        for U in others:
            for h in affected:
                if h in self.inited[U] and all(q in self.inited[U] for q in DIGEST_PREREQ.get(h, ())):
                    pre[(U, h)] = digest_group(self.tables[U], h)
        own_pre = digest_group(self.tables[T], g) if all(
            q in self.inited[T] for q in DIGEST_PREREQ.get(g, ())) else None
        try:
            apply_mutation(self.tables[T], g, variant)
        except Exception as exc:
            # a legal mutation that cannot be carried out is a harness/model problem unless the library raised it
            self.counts['mutation_exceptions'] += 1
            text = traceback.format_exc()
            if (os.sep + 'periodictable' + os.sep) in text:
                self.violation('mutation-exception', 'c', T, g,
                               'mutation %s raised %s through the library: %s' % (':'.join(p), type(exc).__name__, str(exc)[:120]),
                               symptom='EXC:' + type(exc).__name__, traceback=text[-600:])
            elif isinstance(exc, AttributeError) and (g, variant) in PRIVATE_FIELD_MUTATIONS:
                # the mutation is written against a private field (_mass, _density, ...) that this tree does
                # not have, and there is no public way to assign it: the event is skipped, not judged
                self.counts['mutations_not_applicable'] += 1
                self.counts['mutations_not_applicable.%s:%s' % (g, variant)] += 1
            else:
                self.harness.append('mutation %s could not be applied (harness): %s' % (':'.join(p), text[-400:]))
        self.mutated[T].add(g)
        self.mutated[T].update(DEPENDENTS.get(g, ()))
        if g in ('mass', 'density'):
            self.check_derived(T, 'after %s' % ':'.join(p))
        if own_pre is not None:
            if diff_digests(digest_group(self.tables[T], g), own_pre):
                self.counts['effective_mutations'] += 1
            else:
                self.counts['ineffective_mutations'] += 1
        for (U, h), d0 in pre.items():
            self.counts['cross_table_comparisons'] += 1
            d1 = digest_group(self.tables[U], h)
            self.counts['entries_compared'] += len(d1)
            diffs = diff_digests(d1, d0)
            if diffs:
                self.report_diffs('private-cross', 'c', U, h, diffs,
                                  'mutating %s of %s changed, in table %s,' % (g, T, U), mutated_table=T)

    def check_derived(self, T, where):
        """Values that the library derives from mass and density must follow T's OWN mass and density
        (documented equations of density.py / core.Ion.mass), also after T's data were changed: a private
        table whose calculations read another table's data is not isolated from it."""
        from periodictable.constants import avogadro_number, electron_mass
        tb = self.tables[T]
        if 'mass' not in self.inited[T] or 'density' not in self.inited[T]:
            return
        bad = []

        def close(a, b):
            if a is None or b is None:
                return a is None and b is None
            return abs(a - b) <= 1e-12 * max(abs(a), abs(b))
        for sym in ('H', 'Fe', 'Cm', 'U', 'At'):
            e = tb.symbol(sym)
            self.counts['derived_value_checks'] += 1
            try:
                m, rho = e.mass, e.density
                n, d = e.number_density, e.interatomic_distance
                want_n = None if rho is None or m is None else rho / m * avogadro_number
                want_d = None if rho is None or m is None else (m / (rho * avogadro_number * 1e-24)) ** (1. / 3.)
                if not close(n, want_n):
                    bad.append((sym, 'number_density', n, want_n))
                if not close(d, want_d):
                    bad.append((sym, 'interatomic_distance', d, want_d))
                for iso in list(e)[:2]:
                    want = None if rho is None else rho * iso.mass / m
                    if not close(iso.density, want):
                        bad.append(('%s[%d]' % (sym, iso.isotope), 'density', iso.density, want))
                if e.ions:
                    q = e.ions[0]
                    if not close(e.ion[q].mass, m - q * electron_mass):
                        bad.append(('%s{%d}' % (sym, q), 'mass', e.ion[q].mass, m - q * electron_mass))
            except Exception as exc:
                bad.append((sym, 'derived', ('EXC', type(exc).__name__), 'a value'))
        if bad:
            self.violation('private-derived', 'b', T, 'density',
                           '%s: %d value(s) that %s derives from mass and density do not follow its own data, e.g. %s.%s = %s, own data give %s'
                           % (where, len(bad), T, bad[0][0], bad[0][1], short(bad[0][2], 40), short(bad[0][3], 40)),
                           symptom='derived-differs', entries=bad, item='derived')

    def _check_formula_atoms(self, T, what, label, f=None):
        """(e): every atom of the formula is an atom of the table it was parsed with."""
        import periodictable as pt
        tb = pt.elements if T is None else self.tables[T]
        if f is None:
            try:
                f = formula_call(what, tb)
            except Exception:
                return
        self.counts['formula_atom_checks'] += 1
        bad = []
        atoms = formula_atoms(f)
        self.counts['formula_atoms_checked'] += len(atoms)
        for a in atoms:
            if not belongs_to(tb, a):
                own = [U for U, t in list(self.tables.items()) + [('public', pt.elements)] if belongs_to(t, a)]
                bad.append((atom_label(a), 'owner', (own or ['no known table'])[0], label))
        if bad:
            self.violation('foreign-atom', 'e', label, '-',
                           '%s built with table=%s contains %d atom(s) of another table, e.g. %s of %s'
                           % (what if isinstance(what, str) else repr(FORMULA_STRINGS[what]), label, len(bad),
                              bad[0][0], bad[0][2]),
                           symptom='owner:' + str(bad[0][2]), entries=bad)

    def _ev_parse(self, p, pend):
        import periodictable as pt
        T, k = p[1], int(p[2])
        try:
            f = formula_call(k, self.tables[T])
        except Exception as exc:
            self.violation('private-fresh', 'b', T, '-',
                           'formula(%r, table=%s) raised %s: %s' % (FORMULA_STRINGS[k], T, type(exc).__name__, str(exc)[:100]),
                           symptom='EXC:' + type(exc).__name__, traceback=traceback.format_exc()[-600:])
            return
        self._check_formula_atoms(T, k, T, f)
        if not (self.comparable(T, 'mass') and self.comparable(T, 'density')):
            return      # counts of a mixture string and the mass depend on T's (mutated) masses and densities
        self.counts['private_parse_comparisons'] += 1
        ref = self.canon['events']['pub.parse:%d' % k]
        ref = tuple(ref[:2]) if isinstance(ref, (list, tuple)) and len(ref) == 3 else ref   # (text, mass[, foreign atoms])
        got = safe(lambda: _formula_value(f))
        if got != ref and not (isinstance(got, (list, tuple)) and isinstance(ref, (list, tuple)) and list(got) == list(ref)):
            self.violation('private-fresh', 'b', T, 'mass',
                           'formula(%r, table=%s) -> %s, public canonical %s' % (FORMULA_STRINGS[k], T, short(got, 60), short(ref, 60)),
                           symptom=value_kind(got), entries=[('parse:%d' % k, 'value', got, ref)])

    def _ev_parse0(self, p, pend):
        """formula(s, table=T) while T has no isotopes yet (mass.init(T) has not run): the call may raise,
        but a formula that comes back must hold T's atoms only."""
        T, k = p[1], int(p[2])
        try:
            f = formula_call(k, self.tables[T])
        except Exception:
            self.counts['bare_table_parse.raised'] += 1
            return
        self.counts['bare_table_parse.returned'] += 1
        self._check_formula_atoms(T, k, T, f)

    def _ev_mix(self, p, pend):
        import periodictable as pt
        T, how = p[1], p[2]
        tb = self.tables[T]
        try:
            if how == 'weight':
                f = pt.mix_by_weight('H2O', 2, 'NaCl', 1, 'D2O', 0.5, table=tb)
            else:
                f = pt.mix_by_volume('H2O@1', 2, 'D2O@1.1', 1, 'Fe{2+}3O{2-}4@5', 0.1, table=tb)
        except Exception as exc:
            self.violation('private-fresh', 'b', T, '-',
                           'mix_by_%s(..., table=%s) raised %s: %s' % (how, T, type(exc).__name__, str(exc)[:100]),
                           symptom='EXC:' + type(exc).__name__, traceback=traceback.format_exc()[-600:])
            return
        self._check_formula_atoms(T, 'mix_by_%s' % how, T, f)

    def _ev_pickle(self, p, pend):
        """(f): a pickled atom of T is restored to T's own object."""
        T, kind = p[1], p[2]
        tb = self.tables[T]
        if kind == 'kept':
            return self._pickle_kept_atoms(T)
        atoms = {'el': [tb.Fe, tb[0], tb.Og], 'ion': [tb.Fe.ion[2], tb.O.ion[-2]]}
        if 'mass' in self.inited[T]:
            atoms['iso'] = [tb.Fe[56], tb.D, tb.T, tb.U[238]]
            atoms['isoion'] = [tb.Fe[56].ion[3], tb.D.ion[1]]
            atoms['struct'] = [((2, tb.H), (1, tb.O[18]), (1, tb.Fe.ion[3]))]
        for a in atoms[kind]:
            self.counts['pickle_checks'] += 1
            try:
                b = pickle.loads(pickle.dumps(a))
            except Exception as exc:
                self.violation('pickle', 'f', T, '-', 'pickle round trip of %r of %s raised %s: %s'
                               % (a, T, type(exc).__name__, str(exc)[:100]), symptom='EXC:' + type(exc).__name__)
                continue
            if kind == 'struct':
                same = all(x[1] is y[1] for x, y in zip(a, b))
            else:
                same = b is a
            if not same:
                import periodictable as pt
                leaves = [y[1] for y in b] if kind == 'struct' else [b]
                own = []
                for leaf in leaves:
                    own += [U for U, t in list(self.tables.items()) + [('public', pt.elements)] if belongs_to(t, leaf)] or ['no known table']
                self.violation('pickle', 'f', T, '-',
                               'pickled %s of %s restored to an object of %s' % (atom_label(a) if kind != 'struct' else 'structure', T, sorted(set(own))),
                               symptom='owner:' + ','.join(sorted(set(own))),
                               entries=[(repr(a)[:40], 'restored-owner', ','.join(sorted(set(own))), T)])

    def _pickle_kept_atoms(self, T):
        """(f) for atoms that outlive the caller's reference to their table: a helper builds a private table,
        returns some of its atoms (or a formula over them) and lets the table name go out of scope.  The atoms are
        still atoms of that table, and a pickle round trip restores them to themselves."""
        import gc
        import periodictable as pt
        from periodictable import core
        self._kept = getattr(self, '_kept', [])
        name = 'kept-%s-%d' % (T, len(self._kept))

        def helper():
            tmp = core.PeriodicTable(name)
            f = pt.formula([(2, tmp.H), (1, tmp.O.ion[-2]), (1, tmp.Fe)])
            return [tmp.Fe, tmp.Fe.ion[2], tmp[0]], f
        try:
            atoms, f = helper()
        except Exception as exc:
            self.harness.append('pickle:kept: building the scratch table raised %s: %s' % (type(exc).__name__, exc))
            return
        gc.collect()
        self._kept.append((atoms, f))
        for a in atoms + [f]:
            self.counts['pickle_checks'] += 1
            self.counts['pickle_kept_checks'] += 1
            try:
                b = pickle.loads(pickle.dumps(a))
            except Exception as exc:
                self.violation('pickle', 'f', T, '-', 'pickle round trip of %r, an atom (formula) of a private table whose '
                               'name the caller no longer holds, raised %s: %s' % (a, type(exc).__name__, str(exc)[:100]),
                               symptom='EXC:' + type(exc).__name__)
                continue
            same = (b is a) if a is not f else all(x is y for x, y in zip(formula_atoms(b), formula_atoms(a)))
            if not same:
                self.violation('pickle', 'f', T, '-', 'pickled %r of a private table whose name the caller no longer holds '
                               'was restored to another object' % (a,), symptom='owner:another-object')

    # -- end of history ----------------------------------------------------
    def finish(self, heap=True):
        import periodictable as pt
        self.index += 1
        self.event = '<end of history>'
        st = loader_state()
        pend = pending_groups(st)
        # a lazy group is untouched when every one of its class attributes is still the pending delayed-load
        # property and no private table initialised it; the quick tier leaves such groups alone
        skip = set()
        if not CONFIG.get('force_all', True):
            for g in LAZY:
                if all(k == 'pending' for k in st[g]) and not any(g in self.inited[T] for T in self.tables):
                    skip.add(g)
        self.counts['public_groups_forced_at_end'] += len(set(pend) - skip)
        self.counts['public_groups_left_untouched'] += len(skip)
        # (a)/(c): the public table, after forcing every load, serves the canonical values
        for name, want in sorted(self.canon['events'].items()):
            if name.startswith('pub.read:'):
                _, g, r = name.split(':')
                if g in skip:
                    continue
                self.counts['public_event_comparisons'] += 1
                v = safe(lambda: READS[g][r](pt.elements))
                if v != want:
                    self.violation('public-event', 'a', 'public', g,
                                   'final public %s = %s, canonical %s' % (name, short(v, 70), short(want, 70)),
                                   symptom=value_kind(v), entries=[(name, 'value', v, want)], final=True,
                                   item='%s=%s' % (name, value_kind(v)))
        for g in GROUPS:
            if g not in skip:
                self.compare_digest('public', pt.elements, g, 'public-digest', 'a/c', 'end of history')
        # (b)/(c): every comparable group of every private table still equals canonical
        for T, tb in sorted(self.tables.items()):
            for g in GROUPS:
                if self.comparable(T, g):
                    self.compare_digest(T, tb, g, 'private-fresh', 'b/c', 'end of history')
        for T in sorted(self.tables):
            self.check_derived(T, 'end of history')
        # (d): heap walk
        if heap:
            tabs = collections.OrderedDict()
            tabs['public'] = (pt.elements, set(GROUPS) - skip)
            for T, tb in sorted(self.tables.items()):
                tabs[T] = (tb, set(self.inited[T]))
            recs, foreign, stats = heap_walk(tabs, dataless=self.canon.get('dataless_neutron', ()))
            self.heap_stats = stats
            self.counts['heap_walks'] += 1
            self.counts['heap_objects_walked'] += stats.get('objects_walked', 0)
            self.counts['heap_mutable_objects'] += stats.get('mutable_objects', 0)
            self.counts['heap_table_pairs'] += len(tabs) * (len(tabs) - 1) // 2
            groups = collections.OrderedDict()
            for r in recs:
                sig = (r['object_type'], tuple(r['root_attrs']), bool(r['class_level']),
                       {True: 'served only to atoms without a neutron row', False: 'served to atoms that have data',
                        None: 'per-atom data'}[r['served_only_to_dataless']], tuple(r['tables']))
                groups.setdefault(sig, []).append(r)
            for sig, rs in groups.items():
                r = rs[0]
                self.violation('shared-object', 'd', '+'.join(r['tables']), _group_of_attrs(r['root_attrs']),
                               '%d mutable %s object(s) reachable from per-atom data of tables %s, e.g. %s'
                               % (len(rs), r['object_type'], ' and '.join(r['tables']),
                                  '; '.join('%s: %s' % (lab, ps[0]) for lab, ps in sorted(r['paths'].items()))),
                               symptom='%s via %s%s, %s' % (sig[0], ','.join(sig[1]) or '?',
                                                           ' (class-level default)' if sig[2] else '', sig[3]),
                               entries=[(x['paths'][x['tables'][0]][0], 'shared-with', x['tables'][1], 'unshared') for x in rs[:40]],
                               heap=r, n_objects=len(rs))
            if foreign:
                f0 = foreign[0]
                self.violation('foreign-reference', 'd', f0['from_table'], '-',
                               'per-atom data of %s refers to %d atom(s) of another table, e.g. %s -> %s of %s'
                               % (f0['from_table'], stats.get('foreign_atoms', 0), f0['path'], f0['atom'], f0['atom_owner']),
                               symptom='atom-of:' + f0['atom_owner'],
                               entries=[(x['path'], 'refers-to', '%s of %s' % (x['atom'], x['atom_owner']), x['from_table']) for x in foreign])

    def result(self):
        return {'violations': self.viol, 'counts': dict(self.counts), 'early_inits': self.early_inits,
                'late_inits': self.late_inits, 'transitions': self.transitions, 'skipped': self.skipped,
                'heap_stats': self.heap_stats, 'harness': self.harness, 'pid': os.getpid()}


def _group_of_attrs(attrs):
    for g, names in SERVED.items():
        if any(a in names for a in attrs):
            return g
    if '_xray' in attrs:
        return 'xray'
    return '-'


def _formula_value(f, with_mass=True):
    return (str(f), f.mass if with_mass else None)


def _parse_value(tb, k):
    import periodictable as pt
    from periodictable import core
    f = formula_call(k, tb)
    # the atoms must be the objects of the table that was asked for (the public one when none is given),
    # whatever was parsed with another table before
    home = pt.elements if tb is None else tb
    foreign = 0
    for a in f.atoms:
        base = a.element if core.ision(a) else a
        if isinstance(base, core.Isotope):
            base = base.element
        if home[base.number] is not base:
            foreign += 1
    return _formula_value(f) + (foreign,)


def play(history, canon, heap=True):
    env = Env(canon)
    for name in history:
        env.apply(name)
    env.finish(heap=heap)
    return env.result()


def canonical():
    """Reference values: pristine interpreter, each lazy group read once through an element in
    registration order, then every public event and the full digest."""
    import periodictable as pt
    CONFIG['xray_elements'] = None      # the canonical digest is always complete
    el = pt.elements
    el.Fe.covalent_radius
    el.Fe.crystal_structure
    el.Fe.neutron
    el.Fe[56].neutron_activation
    el.Fe.xray
    el.Cu.K_alpha
    el.Fe.magnetic_ff
    digest = {g: digest_group(el, g) for g in GROUPS}
    events = {}
    for name in pub_events():
        p = name.split(':')
        if p[0] == 'pub.read':
            events[name] = safe(lambda: READS[p[1]][p[2]](el))
        elif p[0] == 'pub.calc':
            events[name] = safe(CALCS[p[1]][0])
        else:
            events[name] = safe(lambda: _parse_value(None, int(p[1])))
    # second evaluation must agree (reads are idempotent), and the digest must not have moved
    again = {g: digest_group(el, g) for g in GROUPS}
    stable = all(not diff_digests(again[g], digest[g]) for g in GROUPS)
    dataless = sorted(k for k, f in digest['neutron'].items() if not f.get('own_record'))
    return {'digest': digest, 'events': events, 'dataless_neutron': dataless, 'stable': stable,
            'n_entries': {g: len(digest[g]) for g in GROUPS},
            'where': os.path.realpath(pt.__file__)}


# ---------------------------------------------------------------------------
# process plumbing: forks of a pristine interpreter, fresh interpreters
# ---------------------------------------------------------------------------
def pristine_import():
    """Make this interpreter the pristine parent: third-party modules (not events) and
    `import periodictable` only.  Returns the library's path."""
    import numpy  # noqa
    import pyparsing  # noqa
    import periodictable
    record_placeholders()
    return os.path.realpath(periodictable.__file__)


def run_forked(fn, timeout=CHILD_ALARM_S):
    """Run fn() in a forked child; returns ('ok', value) | ('err', text) | ('dead', text)."""
    r, w = os.pipe()
    sys.stdout.flush()
    sys.stderr.flush()
    pid = os.fork()
    if pid == 0:
        code = 0
        try:
            os.close(r)
            signal.alarm(int(timeout))
            try:
                res = ('ok', fn())
            except BaseException:
                res = ('err', traceback.format_exc())
            with os.fdopen(w, 'wb') as f:
                pickle.dump(res, f, protocol=pickle.HIGHEST_PROTOCOL)
        except BaseException:
            code = 3
        finally:
            os._exit(code)
    os.close(w)
    data = b''
    with os.fdopen(r, 'rb') as f:
        data = f.read()
    _, status = os.waitpid(pid, 0)
    if not data:
        return ('dead', 'child %d produced no result (wait status %d)' % (pid, status))
    try:
        return pickle.loads(data)
    except Exception as exc:
        return ('dead', 'child result unreadable: %r (wait status %d)' % (exc, status))


_FRESH_CODE = 'from pvmon import explore10; explore10.fresh_main()'


def run_fresh(job, timeout=180):
    """Run a job ({'mode': 'canonical'} or {'mode': 'play', 'history': [...], 'canon': path})
    in a fresh interpreter (subprocess.run([... '-c', ...], timeout=...))."""
    here = os.path.dirname(os.path.dirname(os.path.abspath(__file__)))
    fd, out = tempfile.mkstemp(prefix='c10_fresh_', suffix='.pkl')
    os.close(fd)
    job = dict(job, out=out)
    try:
        try:
            cp = subprocess.run([sys.executable, '-c', _FRESH_CODE], input=json.dumps(job).encode(),
                                cwd=here, stdout=subprocess.PIPE, stderr=subprocess.STDOUT, timeout=timeout)
        except subprocess.TimeoutExpired:
            return ('dead', 'fresh interpreter timed out after %ds' % timeout)
        if cp.returncode != 0 or not os.path.getsize(out):
            return ('dead', 'fresh interpreter exit %d: %s' % (cp.returncode, cp.stdout.decode(errors='replace')[-800:]))
        with open(out, 'rb') as f:
            return pickle.load(f)
    finally:
        try:
            os.remove(out)
        except OSError:
            pass


def fresh_main():
    job = json.loads(sys.stdin.read())
    try:
        where = pristine_import()
        if job['mode'] == 'canonical':
            res = ('ok', canonical())
        else:
            with open(job['canon'], 'rb') as f:
                canon = pickle.load(f)
            xs = job.get('xray_elements')
            CONFIG['xray_elements'] = set(xs) if xs else None
            CONFIG['force_all'] = job.get('force_all', True)
            r = play(job['history'], canon, heap=job.get('heap', True))
            r['where'] = where
            res = ('ok', r)
    except BaseException:
        res = ('err', traceback.format_exc())
    with open(job['out'], 'wb') as f:
        pickle.dump(res, f, protocol=pickle.HIGHEST_PROTOCOL)


# ---------------------------------------------------------------------------
# history generation (names only; nothing is executed here)
# ---------------------------------------------------------------------------
class Model(object):
    """Generator-side legality model (mirrors Env.legal)."""

    def __init__(self):
        self.inited = collections.OrderedDict()
        self.pub_touched = set()
        self.hist = []

    def add(self, name):
        p = name.split(':')
        if p[0] == 'new':
            self.inited[p[1]] = []
        elif p[0] == 'init':
            if p[2] not in self.inited[p[1]]:
                self.inited[p[1]].append(p[2])
        elif p[0].startswith('pub.'):
            self.pub_touched.update(event_groups(name))
        self.hist.append(name)

    def missing_prereq(self, T, needs):
        for q in needs:
            for q2 in INIT_PREREQ.get(q, ()):
                if q2 not in self.inited[T]:
                    return q2
            if q not in self.inited[T]:
                return q
        return None


def random_history(rng, maxlen=16, guard_early=(), guard_mut=(), two_tables=0.4, minlen=3):
    """A random LEGAL history.  guard_early: groups whose init(T) must be preceded by a public
    touch of the group; guard_mut: (group, variant) pairs that must not be emitted."""
    m = Model()
    m.add('new:T1')
    n = rng.randint(minlen, maxlen)
    want_two = rng.random() < two_tables
    pub = pub_events()
    guard = 0
    while len(m.hist) < n and guard < 200:
        guard += 1
        r = rng.random()
        T = rng.choice(list(m.inited))
        have = m.inited[T]
        if want_two and 'T2' not in m.inited and r < 0.12:
            m.add('new:T2')
        elif r < 0.40:
            todo = [g for g in GROUPS if g not in have]
            if not todo:
                continue
            g = rng.choice(todo)
            g = m.missing_prereq(T, INIT_PREREQ.get(g, ())) or g
            if g in guard_early and g not in m.pub_touched:
                m.add('pub.read:%s:%s' % (g, rng.choice(sorted(READS[g]))))
                if len(m.hist) >= n:
                    break
            m.add('init:%s:%s' % (T, g))
        elif r < 0.60:
            m.add(rng.choice(pub))
        elif r < 0.70:
            g = rng.choice(have) if (have and rng.random() < 0.7) else rng.choice(GROUPS)
            m.add('read:%s:%s:%s' % (T, g, rng.choice(sorted(READS[g]))))
        elif r < 0.84:
            cand = [(g, v) for g in have for v in MUTATIONS[g]
                    if (g, v) not in guard_mut
                    and not (g in ('neutron', 'activation') and m.missing_prereq(T, DIGEST_PREREQ.get(g, ())))]
            if not cand:
                continue
            g, v = rng.choice(cand)
            m.add('mut:%s:%s:%s' % (T, g, v))
        elif r < 0.89:
            cand = [g for g in have if not m.missing_prereq(T, DIGEST_PREREQ.get(g, ()))]
            if not cand:
                continue
            m.add('digest:%s:%s' % (T, rng.choice(cand)))
        elif r < 0.96:
            q = m.missing_prereq(T, ('mass', 'density'))
            if q:
                m.add('init:%s:%s' % (T, q))
                continue
            if rng.random() < 0.3:
                m.add('pub.parse:%d' % rng.randrange(len(FORMULA_STRINGS)))
                if len(m.hist) >= n:
                    break
            if rng.random() < 0.7:
                m.add('parse:%s:%d' % (T, rng.randrange(len(FORMULA_STRINGS))))
            else:
                m.add('mix:%s:%s' % (T, rng.choice(('weight', 'volume'))))
        else:
            kinds = PICKLE_KINDS if 'mass' in have else ('el', 'ion', 'kept')
            m.add('pickle:%s:%s' % (T, rng.choice(kinds)))
    return m.hist


def with_prereqs(T, g, needs=None):
    """[init events] that make init:T:g (or the given needs) legal."""
    out = []
    for q in (INIT_PREREQ.get(g, ()) if needs is None else needs):
        for q2 in INIT_PREREQ.get(q, ()):
            if 'init:%s:%s' % (T, q2) not in out:
                out.append('init:%s:%s' % (T, q2))
        if 'init:%s:%s' % (T, q) not in out:
            out.append('init:%s:%s' % (T, q))
    return out


def probe_histories():
    """Minimal histories that carry exactly one potentially order-/mutation-sensitive feature.
    ('early', g): init(T) before the first public touch of g, then a public read;
    ('mut', g, v): init then one mutation (public loaded only at the end)."""
    out = []
    for g in LAZY:
        out.append((('early', g), ['new:T1'] + with_prereqs('T1', g) + ['init:T1:%s' % g, 'pub.read:%s:%s' % (g, 'el' if 'el' in READS[g] else 'iso')]))
    for g in MUTATIONS:
        for v in MUTATIONS[g]:
            pre = with_prereqs('T1', g, needs=tuple(DIGEST_PREREQ.get(g, ())) if g in ('neutron', 'activation') else None)
            warm = ['pub.read:%s:%s' % (g, 'el' if 'el' in READS[g] else 'iso')] if g in LAZY else []
            out.append((('mut', g, v), warm + ['new:T1'] + pre + ['init:T1:%s' % g, 'mut:T1:%s:%s' % (g, v)]))
    return out


def systematic_histories(thorough=False):
    """(origin, history) pairs: for every lazy group the 'init(T) before first public touch' pair with
    every public route, its mirror (public first), every mutation before and after the public first
    touch, (e) and (f) probes; thorough adds closure-style pairs and triples."""
    out = []
    for g in LAZY:
        for r in sorted(READS[g]):
            pre = ['new:T1'] + with_prereqs('T1', g)
            out.append(('early-init:%s:%s' % (g, r), pre + ['init:T1:%s' % g, 'pub.read:%s:%s' % (g, r)]))
            out.append(('late-init:%s:%s' % (g, r), ['pub.read:%s:%s' % (g, r)] + pre + ['init:T1:%s' % g, 'digest:T1:%s' % g] if
                        all(q in [x.split(':')[2] for x in pre if x.startswith('init')] for q in DIGEST_PREREQ.get(g, ()))
                        else ['pub.read:%s:%s' % (g, r)] + pre + ['init:T1:%s' % g]))
        for c, (_, groups) in CALCS.items():
            if g in groups:
                out.append(('early-init-calc:%s:%s' % (g, c), ['new:T1'] + with_prereqs('T1', g) + ['init:T1:%s' % g, 'pub.calc:%s' % c]))
    for g in MUTATIONS:
        for v in MUTATIONS[g]:
            needs = tuple(DIGEST_PREREQ.get(g, ())) or None
            pre = ['new:T1'] + with_prereqs('T1', g, needs=needs)
            read = 'pub.read:%s:%s' % (g, 'el' if 'el' in READS[g] else 'iso')
            out.append(('mut-before-public-touch:%s:%s' % (g, v), pre + ['init:T1:%s' % g, 'mut:T1:%s:%s' % (g, v), read]))
            out.append(('mut-after-public-touch:%s:%s' % (g, v), [read] + pre + ['init:T1:%s' % g, 'mut:T1:%s:%s' % (g, v)]))
            pre2 = [x.replace('T1', 'T2') for x in pre]
            out.append(('mut-with-second-table:%s:%s' % (g, v),
                        pre + pre2 + ['init:T1:%s' % g, 'init:T2:%s' % g, 'mut:T1:%s:%s' % (g, v), 'digest:T2:%s' % g]))
    base = ['new:T1', 'init:T1:mass', 'init:T1:density']
    for k in range(len(FORMULA_STRINGS)):
        out.append(('parse-after-public-parse:%d' % k, base + ['pub.parse:%d' % k, 'parse:T1:%d' % k]))
        out.append(('parse-before-public-parse:%d' % k, base + ['parse:T1:%d' % k, 'pub.parse:%d' % k]))
    for k in range(len(FORMULA_STRINGS)):
        if FORMULA_STRINGS[k].split('|')[0] in ('H2O', 'Fe', 'NaCl@2.16', 'aa:AGK', 'dna:ACGT', 'aa:GGK', 'rna:ACGU'):
            out.append(('parse-on-bare-table:%d' % k, ['new:T1', 'parse0:T1:%d' % k, 'pub.parse:%d' % k]))
    out.append(('two-table-parse', base + ['new:T2', 'init:T2:mass', 'init:T2:density', 'parse:T1:3', 'parse:T2:3', 'parse:T1:3', 'mix:T2:weight', 'mix:T1:volume']))
    for kind in PICKLE_KINDS:
        out.append(('pickle:%s' % kind, base + ['new:T2', 'init:T2:mass', 'pickle:T1:%s' % kind, 'pickle:T2:%s' % kind]))
    out.append(('pickle-bare', ['new:T1', 'pickle:T1:el', 'pickle:T1:ion', 'pickle:T1:kept']))
    # a loader called too early (refused), then the documented order
    for g in PREMATURE:
        needs = list(INIT_PREREQ[g])
        for k in range(len(needs)):
            h = ['new:T1'] + ['init:T1:%s' % q for q in needs[:k]] + ['init0:T1:%s' % g] + \
                ['init:T1:%s' % q for q in needs[k:]] + ['init:T1:%s' % g, 'digest:T1:%s' % g]
            out.append(('premature-init:%s:%d' % (g, k), h))
            if g in READS:
                out.append(('premature-init-after-public:%s:%d' % (g, k), ['pub.read:%s:%s' % (g, list(READS[g])[0])] + h))
                # ... and the refused call as the last thing that happens to that group before the public table is used
                out.append(('premature-init-then-public:%s:%d' % (g, k),
                            ['new:T1'] + ['init:T1:%s' % q for q in needs[:k]] + ['init0:T1:%s' % g,
                                                                                 'pub.read:%s:%s' % (g, list(READS[g])[0])]))
    if thorough:
        # ordered pairs over {init(T1) g, first public touch of g'} and triples with a second table
        for g1 in LAZY:
            for g2 in LAZY:
                if g1 == g2:
                    continue
                pre = ['new:T1'] + with_prereqs('T1', g1)
                for x in with_prereqs('T1', g2):
                    if x not in pre:
                        pre.append(x)
                r2 = 'pub.read:%s:%s' % (g2, 'el' if 'el' in READS[g2] else 'iso')
                r1 = 'pub.read:%s:%s' % (g1, 'el' if 'el' in READS[g1] else 'iso')
                out.append(('pair:init-init:%s:%s' % (g1, g2), pre + ['init:T1:%s' % g1, 'init:T1:%s' % g2, r1, r2]))
                out.append(('pair:init-touch-init:%s:%s' % (g1, g2), pre + ['init:T1:%s' % g1, r2, 'init:T1:%s' % g2, r1]))
                pre2 = [x.replace('T1', 'T2') for x in with_prereqs('T1', g2)]
                out.append(('triple:T1-T2-public:%s:%s' % (g1, g2),
                            pre + ['new:T2'] + pre2 + ['init:T1:%s' % g1, 'init:T2:%s' % g2, r2, r1]))
        for g in LAZY:
            for c in CALCS:
                out.append(('pair:calc-then-init:%s:%s' % (c, g), ['pub.calc:%s' % c, 'new:T1'] + with_prereqs('T1', g) + ['init:T1:%s' % g, 'digest:T1:%s' % g]
                            if not DIGEST_PREREQ.get(g) or g in ('neutron',) else
                            ['pub.calc:%s' % c, 'new:T1'] + with_prereqs('T1', g, needs=DIGEST_PREREQ[g]) + ['init:T1:%s' % g, 'digest:T1:%s' % g]))
        for g in GROUPS:
            for r in sorted(READS[g]):
                # read through T of a group that T never initialised, while the public group is pending
                out.append(('private-read-uninitialised:%s:%s' % (g, r), ['new:T1', 'init:T1:mass', 'read:T1:%s:%s' % (g, r), 'pub.read:%s:%s' % (g, r)]))
        for (g1, v1) in [(g, v) for g in MUTATIONS for v in MUTATIONS[g]]:
            for g2 in MUTATIONS:
                if g2 == g1:
                    continue
                pre = ['new:T1']
                for x in with_prereqs('T1', g1, needs=tuple(DIGEST_PREREQ.get(g1, ())) or None) + with_prereqs('T1', g2, needs=tuple(DIGEST_PREREQ.get(g2, ())) or None):
                    if x not in pre:
                        pre.append(x)
                tail = []
                for gg in (g1, g2):
                    if 'init:T1:%s' % gg not in pre:
                        tail.append('init:T1:%s' % gg)
                pre2 = [x.replace('T1', 'T2') for x in pre + tail]
                out.append(('triple:mut-second-table:%s:%s:%s' % (g1, v1, g2),
                            pre + tail + pre2 + ['mut:T1:%s:%s' % (g1, v1), 'digest:T2:%s' % g2, 'mut:T2:%s:%s' % (g2, MUTATIONS[g2][0])]))
    return out


# ---------------------------------------------------------------------------
# history surgery for sibling cases
# ---------------------------------------------------------------------------
def public_projection(history):
    return [e for e in history if e.startswith('pub.')]


def warm_sibling(history, g):
    """The same history with a public read of g inserted at the very beginning."""
    r = 'el' if 'el' in READS[g] else 'iso'
    return ['pub.read:%s:%s' % (g, r)] + list(history)


def without_mutations(history, g, v):
    return [e for e in history if not (e.startswith('mut:') and e.split(':')[2:] == [g, v])]


def signature(v):
    """What identifies 'the same violation' across executions of related histories."""
    role = v['table'] if v['table'] in ('public',) or '+' in v['table'] else 'private'
    item = v['symptom'] if v['kind'] in ('shared-object', 'foreign-reference') else v.get('item', '')
    return (v['kind'], role, v['group'], item)
