#!/venv/bin/python
"""verify_benign.py <PROP> <outdir> [k ...]  (env BENIGN_ALSO="C02 C13": further checks to run)

A behaviour-preserving change written by an independent sub-agent (patchK.diff, notesK.md): the patch must apply
to /repo HEAD, the 42 repository tests must pass with it, and ./check <PROP> (quick) must exit 0 on the patched
copy - an exit 1 is a FALSE ALARM of the monitor (or the change is not benign: look at the witness), an exit 2 is a
monitor that is coupled to internals.  Stored under /verif/benign/<PROP>-<k>/ with the outcome."""
import json, os, shutil, subprocess, sys, tempfile, time
HERE = os.path.dirname(os.path.dirname(os.path.abspath(__file__)))
PY = '/venv/bin/python'
def sh(cmd, cwd=None, env=None, timeout=3600):
    p = subprocess.run(cmd, cwd=cwd, env=env, capture_output=True, text=True, timeout=timeout)
    return p.returncode, p.stdout + p.stderr
prop, outdir = sys.argv[1:3]
ks = sys.argv[3:] or ['1', '2', '3', '4']
also = os.environ.get('BENIGN_ALSO', '').split()
for k in ks:
    patch = os.path.join(outdir, 'patch%s.diff' % k)
    if not os.path.exists(patch):
        continue
    tmp = tempfile.mkdtemp(prefix='pvmon_benign_')
    copy = os.path.join(tmp, 'repo')
    try:
        shutil.copytree('/repo', copy, ignore=shutil.ignore_patterns('.git', '__pycache__', '*.pyc', 'build', '.coverage'))
        rc, out = sh(['patch', '-p1', '-s', '--no-backup-if-mismatch', '-i', patch], cwd=copy)
        if rc:
            print(prop, k, 'PATCH DOES NOT APPLY', out[-200:]); continue
        env = dict(os.environ, PYTHONPATH=copy, PYTHONDONTWRITEBYTECODE='1')
        rc, out = sh([PY, '-m', 'pytest', '-q', '-p', 'no:cacheprovider', '--timeout=900', '-o', 'addopts=--doctest-modules --doctest-glob=*.rst'], cwd=copy, env=env)
        suite = out.strip().splitlines()[-1] if out.strip() else ''
        if rc:
            print(prop, k, 'SUITE FAILS WITH THE PATCH:', suite); continue
        runs = []
        for pr in [prop] + also:
            t0 = time.time()
            rc, out = sh([os.path.join(HERE, 'check'), pr, '--tier', 'quick'],
                         env=dict(os.environ, VERIF_REPO=copy, VERIF_NO_EVIDENCE='1', VERIF_OUT=os.path.join(tmp, 'out')))
            lines = [l for l in out.splitlines() if l.startswith(('VIOLATION', '  check=', 'INCONCLUSIVE'))][:4]
            runs.append({'property': pr, 'rc': rc, 'wall_s': round(time.time() - t0, 1), 'lines': [l[:600] for l in lines]})
        print(prop, k, ' '.join('%s:%s' % (r['property'], {0: 'held', 1: 'ALARM', 2: 'INCONCLUSIVE'}.get(r['rc'], r['rc'])) for r in runs))
        for r in runs:
            if r['rc']:
                for l in r['lines'][:3]:
                    print('     ', l[:400])
        dst = os.path.join(HERE, 'benign', '%s-%s' % (prop, k))
        os.makedirs(dst, exist_ok=True)
        shutil.copy(patch, os.path.join(dst, 'patch.diff'))
        n = os.path.join(outdir, 'notes%s.md' % k)
        if os.path.exists(n):
            shutil.copy(n, os.path.join(dst, 'notes.md'))
        json.dump({'property': prop, 'kind': 'behaviour-preserving change by an independent sub-agent', 'suite': suite,
                   'checks_run': runs, 'expect': 'held', 'props': [prop] + also}, open(os.path.join(dst, 'meta.json'), 'w'), indent=1)
    finally:
        shutil.rmtree(tmp, ignore_errors=True)
