#!/venv/bin/python
"""muts2diff.py <PROP> <relative file under /repo> <mutations.py>: turn a MUTS = {name: [(old, new), ...]} catalogue
into selftest/<PROP>-<name>.diff files (unified diffs against /repo's current working tree)."""
import difflib, os, re, sys
prop, rel, path = sys.argv[1:4]
src = open(path).read()
# evaluate only the MUTS literal
start = src.index('MUTS')
ns = {}
code = src[start:]
# cut at first line that starts a non-indented statement after the dict
depth = 0; end = None
for i, ch in enumerate(code):
    if ch == '{': depth += 1
    elif ch == '}':
        depth -= 1
        if depth == 0: end = i + 1; break
exec(code[:end], ns)
orig = open(os.path.join('/repo', rel)).read()
n = 0
for name, pairs in ns['MUTS'].items():
    if not re.match(r'M\d', name):
        continue
    new = orig
    ok = True
    for old, rep in pairs:
        if new.count(old) != 1:
            ok = False; break
        new = new.replace(old, rep)
    if not ok:
        print('skip (anchor not unique/present):', name); continue
    diff = ''.join(difflib.unified_diff(orig.splitlines(True), new.splitlines(True), 'a/' + rel, 'b/' + rel))
    slug = re.sub(r'[^a-z0-9]+', '-', name.lower()).strip('-')
    open(os.path.join(os.path.dirname(os.path.dirname(os.path.abspath(__file__))), 'selftest', '%s-%s.diff' % (prop, slug)), 'w').write(diff)
    n += 1
print('wrote', n)
