#!/bin/bash
# reverify_seed.sh <seeded-name> [also-props...]: re-run verify_seed for a stored break (refreshes its meta.json)
name=$1; shift
prop=${name%%-*}; rest=${name#*-}
k=${rest##*-}; tag=""
[ "$rest" != "$k" ] && tag="${rest%-*}-"
d=$(mktemp -d /tmp/reverify_XXXX)
cp /verif/seeded/$name/patch.diff $d/patch$k.diff; cp /verif/seeded/$name/demo.py $d/demo$k.py
[ -f /verif/seeded/$name/notes.md ] && cp /verif/seeded/$name/notes.md $d/notes$k.md
SEED_TAG="$tag" SEED_ALSO="$*" /venv/bin/python /verif/tools/verify_seed.py $prop $d $k 2>&1 | grep -v "^WARN"
rm -rf $d
