#!/venv/bin/python
"""Regenerate MANIFEST.json from the metadata of the property modules."""
import importlib, json, os, sys
HERE = os.path.dirname(os.path.dirname(os.path.abspath(__file__)))
sys.path.insert(0, HERE)
BASE = ("cd /repo && /venv/bin/python -m pytest -ra -q -p no:cacheprovider --timeout=900 "
        "--continue-on-collection-errors")
props = [json.loads(l) for l in open(os.path.join(HERE, 'properties.jsonl'))]
checks, na = [], []
for p in props:
    pid = p['id']
    path = os.path.join(HERE, 'pvmon', 'props', pid.lower() + '.py')
    ready = set(open(os.path.join(HERE, 'tools', 'ready.txt')).read().split())
    if not os.path.exists(path) or pid not in ready:
        na.append({'property_id': pid, 'reason': 'check not built yet in this round (design in DESIGN.md section 5 %s); runtime monitoring applies, nothing is claimed until the monitor exists' % pid})
        continue
    src = open(path).read()
    ns = {}
    # metadata only: read constants without importing the library
    import ast
    tree = ast.parse(src)
    for node in tree.body:
        if isinstance(node, ast.Assign) and len(node.targets) == 1 and isinstance(node.targets[0], ast.Name):
            if node.targets[0].id in ('LEVEL_TEXT', 'LEVEL_NOTE', 'TECHNIQUE', 'DESIGN_REF'):
                ns[node.targets[0].id] = ast.literal_eval(node.value)
    checks.append({
        'property_id': pid,
        'quick_cmd': './check %s --tier quick' % pid,
        'thorough_cmd': './check %s --tier thorough' % pid,
        'evidence_file': 'evidence/%s.json' % pid,
        'replay_cmd_template': './check %s --replay {path}' % pid,
        'engine': 'pvmon',
        'level_claimed': {'category': 'exploration', 'text': ns.get('LEVEL_TEXT', ''),
                          'design_ref': ns.get('DESIGN_REF', 'DESIGN.md section 5 ' + pid)},
        'level_note': ns.get('LEVEL_NOTE', ''),
        'technique': ns.get('TECHNIQUE', 'runtime monitoring: reference-model monitor at the API boundary'),
    })
m = {
    'version': 1,
    'setup_cmd': './setup.sh',
    'hooks': {'guard': 'PERIODICTABLE_VERIF',
              'enable': 'no source hooks are needed: monitors attach from outside (wrapping after import, class-dict reads, sys.monitoring); checks import /repo working tree directly via PYTHONPATH',
              'baseline_off_cmd': BASE, 'source_commits': [], 'add_only': True},
    'engines': [{'name': 'pvmon', 'path': 'pvmon/', 'serves_properties': [c['property_id'] for c in checks],
                 'kind_free_text': 'runtime monitoring framework: seeded workload generators, reference-model oracles and in-process contracts/state monitors observing executions of the real library in worker interpreters'}],
    'checks': checks,
    'not_applicable': na,
    'notes': 'Exit codes: 0 held on what was observed (KNOWN-FINDING lines possible), 1 VIOLATION, 2 inconclusive. VERIF_SEED/VERIF_TIER honoured. Known findings: KNOWN_FINDINGS.txt. Seeded breaks used to validate the monitors: seeded/.',
}
json.dump(m, open(os.path.join(HERE, 'MANIFEST.json'), 'w'), indent=1)
try:
    sys.path.insert(0, os.path.join(HERE, '.deps'))
    import jsonschema
    jsonschema.validate(m, json.load(open('/root/.vp/MANIFEST.schema.json')))
    print('MANIFEST.json valid: %d checks, %d not_applicable' % (len(checks), len(na)))
except ImportError:
    print('written (jsonschema unavailable)')
