#!/venv/bin/python
"""verify_seed.py <PROP> <outdir> [k ...]

Confirms a break delivered by an independent sub-agent (patchK.diff, demoK.py, notesK.md in <outdir>):
  1. the patch applies to a scratch copy of /repo's current HEAD,
  2. the repository's 42 tests still pass with it,
  3. demoK.py exits 0 without the patch and non-zero with it,
then runs ./check <PROP> (quick) against the patched copy and stores the break under
/verif/seeded/<PROP>-<k>/ (patch.diff, demo.py, notes.md, meta.json with what was run and the outcome).
Scratch copies live under a mktemp directory and are removed at the end.
"""
import json
import os
import shutil
import subprocess
import sys
import tempfile
import time

HERE = os.path.dirname(os.path.dirname(os.path.abspath(__file__)))
PY = '/venv/bin/python'


def sh(cmd, cwd=None, env=None, timeout=1800):
    p = subprocess.run(cmd, cwd=cwd, env=env, capture_output=True, text=True, timeout=timeout)
    return p.returncode, p.stdout + p.stderr


def main():
    prop, outdir = sys.argv[1:3]
    ks = sys.argv[3:] or ['1', '2', '3']
    extra = os.environ.get('SEED_ALSO', '').split()
    for k in ks:
        patch = os.path.join(outdir, 'patch%s.diff' % k)
        demo = os.path.join(outdir, 'demo%s.py' % k)
        notes = os.path.join(outdir, 'notes%s.md' % k)
        if not os.path.exists(patch):
            print(prop, k, 'no patch')
            continue
        tmp = tempfile.mkdtemp(prefix='pvmon_seed_')
        clean = os.path.join(tmp, 'clean')
        bad = os.path.join(tmp, 'bad')
        res = {'property': prop, 'k': k}
        try:
            for d in (clean, bad):
                shutil.copytree('/repo', d, ignore=shutil.ignore_patterns('.git', '__pycache__', '*.pyc', 'build', '.coverage'))
            rc, out = sh(['patch', '-p1', '-s', '--no-backup-if-mismatch', '-i', patch], cwd=bad)
            res['patch_applies'] = rc == 0
            if rc != 0:
                res['detail'] = out[-500:]
                print(prop, k, 'PATCH DOES NOT APPLY', out[-300:])
                continue
            env = dict(os.environ, PYTHONPATH=bad, PYTHONDONTWRITEBYTECODE='1')
            rc, out = sh([PY, '-m', 'pytest', '-q', '-p', 'no:cacheprovider', '--timeout=900', '-o', 'addopts=--doctest-modules --doctest-glob=*.rst'], cwd=bad, env=env)
            res['suite_passes_with_patch'] = rc == 0
            res['suite_tail'] = out.strip().splitlines()[-1] if out.strip() else ''
            shutil.copy(demo, os.path.join(clean, 'demo_seed.py'))
            shutil.copy(demo, os.path.join(bad, 'demo_seed.py'))
            rc0, _ = sh([PY, 'demo_seed.py'], cwd=clean, env=dict(os.environ, PYTHONPATH=clean, PYTHONDONTWRITEBYTECODE='1'))
            rc1, out1 = sh([PY, 'demo_seed.py'], cwd=bad, env=env)
            res['demo_rc_clean'] = rc0
            res['demo_rc_patched'] = rc1
            res['demo_tail_patched'] = out1.strip().splitlines()[-1][:300] if out1.strip() else ''
            os.remove(os.path.join(bad, 'demo_seed.py'))
            confirmed = res['suite_passes_with_patch'] and rc0 == 0 and rc1 != 0
            res['confirmed'] = confirmed
            runs = []
            for pr in [prop] + extra:
                t0 = time.time()
                env2 = dict(os.environ, VERIF_REPO=bad, VERIF_NO_EVIDENCE='1', VERIF_OUT=os.path.join(tmp, 'out'))
                rc, out = sh([os.path.join(HERE, 'check'), pr, '--tier', 'quick'], env=env2, timeout=3600)
                first = [l for l in out.splitlines() if l.startswith('  check=')][:1]
                runs.append({'property': pr, 'rc': rc, 'caught': rc == 1 and ('VIOLATION property=%s' % pr) in out,
                             'wall_s': round(time.time() - t0, 1), 'first': (first[0][:400] if first else ''),
                             'summary': out.strip().splitlines()[-1][:300] if out.strip() else ''})
            res['check_runs'] = runs
            print(prop, k, 'confirmed' if confirmed else 'NOT CONFIRMED %r' % res, '|',
                  ' '.join('%s:%s' % (r['property'], 'caught' if r['caught'] else 'MISSED rc=%d' % r['rc']) for r in runs))
            if confirmed:
                dst = os.path.join(HERE, 'seeded', '%s-%s%s' % (prop, os.environ.get('SEED_TAG', ''), k))
                os.makedirs(dst, exist_ok=True)
                shutil.copy(patch, os.path.join(dst, 'patch.diff'))
                shutil.copy(demo, os.path.join(dst, 'demo.py'))
                if os.path.exists(notes):
                    shutil.copy(notes, os.path.join(dst, 'notes.md'))
                meta = {'property': prop, 'source': 'independent sub-agent given only the property text and a scratch worktree',
                        'needs_to_manifest': open(notes).read()[:1500] if os.path.exists(notes) else '',
                        'what_was_run': ['patch applied to a scratch copy of /repo HEAD %s' % sh(['git', '-C', '/repo', 'rev-parse', '--short', 'HEAD'])[1].strip(),
                                         'repository suite with patch: ' + res['suite_tail'],
                                         'demo.py without patch: exit %d' % rc0, 'demo.py with patch: exit %d (%s)' % (rc1, res['demo_tail_patched'])],
                        'caught_by': [r['property'] for r in runs if r['caught']],
                        'check_runs': runs, 'expect': 'caught' if any(r['caught'] for r in runs) else 'missed'}
                json.dump(meta, open(os.path.join(dst, 'meta.json'), 'w'), indent=1)
        finally:
            shutil.rmtree(tmp, ignore_errors=True)


if __name__ == '__main__':
    main()
