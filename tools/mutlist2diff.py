#!/venv/bin/python
"""mutlist2diff.py <mutations.py>: MUTS = [(id, prop, relfile, old, new, desc), ...] -> selftest/<PROP>-<id>.diff"""
import ast, difflib, os, re, sys
src = open(sys.argv[1]).read()
tree = ast.parse(src)
muts = None
for node in tree.body:
    if isinstance(node, ast.Assign) and getattr(node.targets[0], 'id', '') == 'MUTS':
        muts = ast.literal_eval(node.value)
here = os.path.dirname(os.path.dirname(os.path.abspath(__file__)))
for t in muts:
    mid, prop, rel, old, new = t[:5]
    orig = open(os.path.join('/repo', rel)).read()
    if orig.count(old) != 1:
        print('skip', mid, 'anchor count', orig.count(old)); continue
    mod = orig.replace(old, new)
    diff = ''.join(difflib.unified_diff(orig.splitlines(True), mod.splitlines(True), 'a/' + rel, 'b/' + rel))
    slug = re.sub(r'[^a-z0-9]+', '-', (mid + '-' + ' '.join(t[5].split()[:6])).lower()).strip('-')
    slug = re.sub(r'^c\d\d-', '', slug)
    open(os.path.join(here, 'selftest', '%s-%s.diff' % (prop, slug)), 'w').write(diff)
    print('wrote', prop, slug)
