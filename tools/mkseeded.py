#!/venv/bin/python
"""Markdown table of the seeded breaks (seeded/*/meta.json)."""
import glob, json, os, re
HERE = os.path.dirname(os.path.dirname(os.path.abspath(__file__)))
def keyf(p):
    n = os.path.basename(os.path.dirname(p))
    m = re.match(r'C(\d+)-(r2-)?(\d+)', n)
    return (int(m.group(1)), 1 if m.group(2) else 0, int(m.group(3)))
print('| break | what it changes (from the author\'s notes) | caught by |')
print('|---|---|---|')
tot = caught = 0
for m in sorted(glob.glob(os.path.join(HERE, 'seeded', '*', 'meta.json')), key=keyf):
    d = json.load(open(m)); name = os.path.basename(os.path.dirname(m))
    notes = d.get('needs_to_manifest', '')
    lines = [l.strip(' #*-') for l in notes.splitlines() if l.strip(' #*-')]
    text = ' '.join(lines[:3])[:230].replace('|', '/')
    cb = ', '.join(d.get('caught_by') or []) or ('deliberate miss: see meta.json' if d.get('disposition') else 'MISSED')
    tot += 1; caught += bool(d.get('caught_by'))
    print('| %s | %s | %s |' % (name, text, cb))
print('\n%d breaks, %d caught' % (tot, caught))
