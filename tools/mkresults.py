#!/venv/bin/python
"""Print the per-property results table (markdown) from evidence/*.json, seeded/*/meta.json and selftest results."""
import glob
import json
import os

HERE = os.path.dirname(os.path.dirname(os.path.abspath(__file__)))
rows = []
seeded = {}
for m in glob.glob(os.path.join(HERE, 'seeded', '*', 'meta.json')):
    d = json.load(open(m))
    name = os.path.basename(os.path.dirname(m))
    seeded.setdefault(d['property'], []).append((name, d.get('caught_by', [])))
own = {}
for f in glob.glob(os.path.join(HERE, 'selftest', '*.diff')):
    own.setdefault(os.path.basename(f).split('-')[0], []).append(f)
print('| property | tier of committed evidence | cases | oracle evaluations | distinct non-trivial | wall s | known findings seen | seeded breaks caught | own breaks in selftest/ |')
print('|---|---|---|---|---|---|---|---|---|')
for i in range(1, 21):
    p = 'C%02d' % i
    f = os.path.join(HERE, 'evidence', p + '.json')
    if not os.path.exists(f):
        print('| %s | - | | | | | | | |' % p)
        continue
    e = json.load(open(f))
    c = e['coverage']
    s = seeded.get(p, [])
    print('| %s | %s seed %d | %d | %d | %d | %.0f | %s | %d of %d | %d |' % (
        p, e['tier'], e['seed'], c.get('cases', 0), c['evaluations'], c['distinct_nontrivial'], e['wall_s'],
        ', '.join('%s x%d' % kv for kv in sorted(c.get('known_findings_seen', {}).items())) or '-',
        sum(1 for _, cb in s if cb), len(s), len(own.get(p, []))))
