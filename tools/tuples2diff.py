#!/venv/bin/python
"""tuples2diff.py <mutations.py>: catalogue of the form  C07 = [(id, relfile, old, new, desc), ...]  ->  selftest/C07-<id>.diff"""
import difflib, os, re, sys
ns = {}
exec(open(sys.argv[1]).read(), ns)
here = os.path.dirname(os.path.dirname(os.path.abspath(__file__)))
for prop, lst in ns.items():
    if not re.fullmatch(r'C\d\d', prop) or not isinstance(lst, list):
        continue
    for t in lst:
        mid, rel, old, new = t[:4]
        orig = open(os.path.join('/repo', rel)).read()
        if orig.count(old) != 1:
            print('skip', prop, mid, 'anchor count', orig.count(old)); continue
        mod = orig.replace(old, new)
        diff = ''.join(difflib.unified_diff(orig.splitlines(True), mod.splitlines(True), 'a/' + rel, 'b/' + rel))
        slug = re.sub(r'[^a-z0-9]+', '-', mid.lower()).strip('-')
        open(os.path.join(here, 'selftest', '%s-%s.diff' % (prop, slug)), 'w').write(diff)
        print('wrote', prop, slug)
