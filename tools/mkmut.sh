#!/bin/bash
# mkmut.sh <patch.diff> <dir>: scratch copy of /repo with the patch applied (remove it yourself)
set -e
rm -rf "$2"; mkdir -p "$2"; rsync -a --exclude .git --exclude __pycache__ --exclude doc /repo/ "$2"/
patch -p1 -s --no-backup-if-mismatch -d "$2" -i "$(realpath $1)"
echo "$2 ready"
