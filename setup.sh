#!/bin/bash
# MANIFEST.setup_cmd: offline install of the pure-Python helper packages next to
# the framework (never into /venv).  Idempotent; ./check runs it too when
# an import fails (a fresh restore has no .deps).
set -e
cd "$(dirname "$0")"
if [ ! -f .deps/.ok ]; then
  rm -rf .deps
  PIP_NO_INDEX=1 /venv/bin/pip install --quiet --no-index --find-links /opt/veriftools/wheels \
      --target .deps icontract mpmath jsonschema >/dev/null 2>.deps.log || { cat .deps.log; exit 1; }
  rm -f .deps.log
  touch .deps/.ok
fi
echo "setup ok"
