"""Mutation runner used for notes/selftest/C16.md and C18.md (scratch tool, not part of the checks).

usage: /venv/bin/python notes/selftest/c16_c18_mutations.py [ID-prefix ...]   (copies /repo to /tmp/nbuild_c16_repo)
"""
import json
import os
import shutil
import subprocess
import sys

COPY = '/tmp/nbuild_c16_repo'

MUTS = [
    # id, prop, file, old, new, description
    ('C16-M1', 'C16', 'periodictable/formulas.py',
     "mass_reduction = atoms[source]*portion*(source.mass - target.mass)",
     "mass_reduction = atoms[source]*portion*(source.mass - getattr(target, 'element', target).mass)",
     'replace(): density of the substituted form computed with the mass of the natural element instead of the target isotope (D form gets H mass)'),
    ('C16-M2', 'C16', 'periodictable/nsf.py',
     "return tuple(aj*fraction + bj*(1-fraction) for aj, bj in zip(a, b))",
     "return tuple(aj*(1-fraction) + bj*fraction for aj, bj in zip(a, b))",
     'mix_values weights swapped'),
    ('C16-M3', 'C16', 'periodictable/nsf.py',
     'D2O_sld = neutron_sld("D2O@0.9982n", **sld_args)',
     'D2O_sld = neutron_sld("D2O@0.9982", **sld_args)',
     '_D2O_slds: D2O at isotopic density 0.9982 instead of natural density 0.9982 (the pre-1.5.2 bug)'),
    ('C16-M4', 'C16', 'periodictable/fasta.py',
     'D2O_SLD = neutron_sld("D2O@0.9982n")[0]',
     'D2O_SLD = neutron_sld("D2O@0.9982")[0]',
     'fasta.D2O_SLD constant computed with the H2O density bug'),
    ('C16-M5', 'C16', 'periodictable/fasta.py',
     "return 100 * (H2O_SLD - Hsld) / (Dsld - Hsld + H2O_SLD - D2O_SLD)",
     "return 100 * (H2O_SLD - Hsld) / (D2O_SLD - H2O_SLD)*-1",
     'fasta.D2Omatch ignores the exchange of labile hydrogen (right only for compounds without labile H)'),
    ('C16-M6', 'C16', 'periodictable/fasta.py',
     "self.sld, self.Dsld = neutron_sld(H)[0], neutron_sld(D)[0]",
     "self.sld, self.Dsld = neutron_sld(M)[0], neutron_sld(D)[0]",
     'Molecule.sld taken from the labile formula (pure H[1]) instead of the natural-H form: 4e-4 relative on the H term'),
    ('C16-M7', 'C16', 'periodictable/nsf.py',
     "(H2O_sld[0] - Hsld[0]) / (Dsld[0] - Hsld[0] + H2O_sld[0] - D2O_sld[0]))",
     "(H2O_sld[0] - Hsld[0]) / (Dsld[0] - Hsld[0] + H2O_sld[0] - D2O_sld[0] + 1e-7))",
     'D2O_match denominator perturbed by 1e-7 (1e-6 A^-2 units): shifts the match fraction by ~1e-8..1e-7'),
    ('C16-M8', 'C16', 'periodictable/formulas.py',
     "atoms[target] = atoms.get(target, 0) + atoms[source]*portion",
     "atoms[target] = atoms[source]*portion",
     'replace() overwrites the target count: only compounds already holding natural H / D besides H[1] are affected'),
    ('C16-M9', 'C16', 'periodictable/nsf.py',
     "solution_sld = mix_values(solute_sld, solvent_sld, volume_fraction)",
     "solution_sld = mix_values(solute_sld, solvent_sld, volume_fraction)\n    solution_sld = (solution_sld[0], solute_sld[1], solution_sld[2])",
     'D2O_sld: imaginary part not mixed with the solvent'),
    ('C16-M10', 'C16', 'periodictable/fasta.py',
     "solute_sld = D2O_fraction*self.Dsld + (1-D2O_fraction)*self.sld",
     "solute_sld = D2O_fraction*self.Dsld + (1-D2O_fraction)*self.sld if volume_fraction < 1 else self.sld",
     'Molecule.D2Osld: pure solute (v = 1) ignores the D2O fraction'),
    ('C16-M15', 'C16', 'periodictable/nsf.py',
     "match_point_sld = mix_values(Dsld, Hsld, D2O_fraction)",
     "match_point_sld = mix_values(Hsld, Dsld, D2O_fraction)",
     'D2O_match: SLD at the match point mixed with swapped H/D forms (fraction itself right)'),
    ('C16-M16', 'C16', 'periodictable/nsf.py',
     'energy=kw.pop("energy", None),',
     'energy=kw.pop("energy", None) and None,',
     '_D2O_slds ignores energy= (default wavelength used): visible only with energy-dependent absorbers'),
    ('C16-M18', 'C16', 'periodictable/fasta.py',
     "M = parse_formula(formula, natural_density=density)",
     "M = parse_formula(formula, density=density)",
     'Molecule(density=) taken as isotopic instead of natural density'),
    # ---- C18
    ('C18-K1', 'C18', 'periodictable/fasta.py',
     "formula, cell_volume, charge = (1/n) * formula, cell_volume/n, charge/n",
     "formula, cell_volume, charge = (1/(n+1)) * formula, cell_volume/(n+1), charge/(n+1)",
     '_code_average divides by n+1'),
    ('C18-K2', 'C18', 'periodictable/fasta.py',
     '_("W", 237.6, "C11H8H[1]2N2O", "tryptophan")',
     '_("W", 237.6, "C11H9H[1]2N2O", "tryptophan")',
     'one residue formula altered in the table source (tryptophan +1 H)'),
    ('C18-K2b', 'C18', 'periodictable/fasta.py',
     "CODE_TABLES = {",
     "AMINO_ACID_CODES['C'] = Molecule('cysteine', 'C3H4H[1]NOS', cell_volume=105.6)\nCODE_TABLES = {",
     'one residue entry replaced after the table was built (cysteine +1 H) - source rows unchanged'),
    ('C18-K2c', 'C18', 'periodictable/fasta.py',
     '_("C",   "C9H9H[1]2N3O6PNa", 278, "cytidine")',
     '_("C",   "C9H9H[1]2N3O6PNa", 287, "cytidine")',
     'volume of one DNA base altered in the table source (278 -> 287)'),
    ('C18-K3', 'C18', 'periodictable/fasta.py',
     "sequence = sequence.split('*', 1)[0]  # stop at first '*'",
     "sequence = sequence.replace('*', '')",
     "'*' removed instead of terminating the sequence"),
    ('C18-K4', 'C18', 'periodictable/fasta.py',
     "        elif filename.endswith('.frn'):\n            type = 'rna'",
     "        elif filename.endswith('.frn'):\n            type = 'dna'",
     '.frn files typed as DNA'),
    ('C18-K5', 'C18', 'periodictable/fasta.py',
     "charge = sum(p.charge for p in parts)",
     "charge = sum(p.charge for p in set(parts))",
     'charge summed over distinct residues only'),
    ('C18-K6', 'C18', 'periodictable/fasta.py',
     "        else:\n            seq.append(line)\n    if name:",
     "        elif line:\n            seq.append(line)\n        else:\n            break\n    if name:",
     'read_fasta stops at the first blank line'),
    ('C18-K7', 'C18', 'periodictable/formulas.py',
     "seq = fasta.Sequence(name=None, sequence=seq, type=seq_type)",
     "seq = fasta.Sequence(name=None, sequence=seq, type='aa' if seq_type != 'dna' else 'dna')",
     "formula('rna:...') uses the amino-acid table"),
    ('C18-K8', 'C18', 'periodictable/fasta.py',
     '_("H", "ACT",  "not G")',
     '_("H", "ACG",  "not G")',
     'ambiguity row H (not G) averages A, C, G'),
    ('C18-K9', 'C18', 'periodictable/fasta.py',
     "M.density = 1e24*M.molecular_mass/cell_volume if cell_volume > 0 else 0",
     "M.density = 1e24*M.mass/6.022e23/cell_volume if cell_volume > 0 else 0",
     'Molecule density uses a 4-digit Avogadro number (4e-5 relative)'),
    ('C18-K10', 'C18', 'periodictable/fasta.py',
     "            if name:\n                yield (name, ''.join(seq))\n            name, seq = line, []",
     "            if name and seq:\n                yield (name, ''.join(seq))\n            name, seq = line, []",
     'read_fasta drops records that have no sequence lines'),
    ('C18-K11', 'C18', 'periodictable/fasta.py',
     "    D, V, _ = _code_average(bases, DNA_BASES)\n    dna = Molecule(name, D.hill, cell_volume=V)",
     "    D, V, _ = _code_average(bases, DNA_BASES if len(bases) != 3 else RNA_BASES)\n    dna = Molecule(name, D.hill, cell_volume=V)",
     'DNA three-base ambiguity codes averaged over the RNA bases'),
]


def run(mut, tier='quick', suite=True):
    mid, prop, path, old, new, desc = mut
    shutil.rmtree(COPY, ignore_errors=True)
    shutil.copytree('/repo', COPY, symlinks=True)
    fn = os.path.join(COPY, path)
    src = open(fn).read()
    if src.count(old) != 1:
        return {'id': mid, 'error': 'pattern occurs %d times' % src.count(old)}
    open(fn, 'w').write(src.replace(old, new))
    out = {'id': mid, 'prop': prop, 'desc': desc}
    if suite:
        r = subprocess.run(['/venv/bin/python', '-m', 'pytest', '-q', '-p', 'no:cacheprovider', '--no-cov', '-x'],
                           cwd=COPY, capture_output=True, text=True)
        tail = [l for l in r.stdout.strip().split('\n') if l.strip()][-1:]
        out['suite'] = tail[0] if tail else ''
    env = dict(os.environ, VERIF_REPO=COPY)
    r = subprocess.run(['./check', prop, '--tier', tier], cwd='/verif', env=env, capture_output=True, text=True)
    lines = [l for l in r.stdout.split('\n') if l.strip()]
    out['exit'] = r.returncode
    out['nviol_lines'] = sum(1 for l in lines if l.startswith('VIOLATION'))
    msgs = [l.strip()[:260] for l in lines if l.strip().startswith('check=')]
    out['first'] = msgs[:2]
    out['checks'] = sorted({m.split()[0] for m in msgs})
    out['summary'] = lines[-1] if lines else ''
    import glob
    for d in glob.glob('/verif/out/%s/scratch-*' % prop):     # the CLI keeps scratch-run outputs; drop them
        shutil.rmtree(d, ignore_errors=True)
    return out


if __name__ == '__main__':
    want = sys.argv[1:]
    res = []
    for m in MUTS:
        if want and not any(m[0].startswith(w) for w in want):
            continue
        o = run(m)
        res.append(o)
        print(json.dumps(o, indent=1), flush=True)
    shutil.rmtree(COPY, ignore_errors=True)
    json.dump(res, open('/tmp/nbuild_c16_mut_%s.json' % ('_'.join(want) or 'all'), 'w'), indent=1)
