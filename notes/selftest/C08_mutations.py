import sys, subprocess, shutil, json
ORIG = "/tmp/nbuild_c08_core.orig"   # cp <copy>/periodictable/core.py here first
DST = '/tmp/nbuild_c08_repo/periodictable/core.py'
MUTS = {
 'M1-ionset-no-cache': [("""            self.ionset[charge] = Ion(self.element_or_isotope, charge)
        return self.ionset[charge]""", """            self.ionset[charge] = Ion(self.element_or_isotope, charge)
        return Ion(self.element_or_isotope, charge)""")],
 'M2-make_isotope_ion-drops-charge': [("    return _get_table(table)[Z][n].ion[c]", "    return _get_table(table)[Z][n]")],
 'M3-symbol-any-attribute': [("""            value = getattr(self, input)
            if isinstance(value, (Element, Isotope)):
                return value""", """            value = getattr(self, input)
            return value""")],
 'M4-name-case-insensitive': [("            if input == el.name:", "            if input.lower() == el.name:")],
 'M5-name-prefix': [("            if input == el.name:", "            if input and el.name.startswith(input) and len(input) >= len(el.name) - 1:")],
 'M6-isotope-number-for-D-T': [("""                # D, T must not have an associated isotope; 4-D is meaningless.
                if isotope == 0:""", """                # D, T must not have an associated isotope; 4-D is meaningless.
                if isotope == 0 or isotope == attr.isotope:""")],
 'M7-iter-isotopes-as-strings': [("        for _, iso in sorted(self._isotopes.items()):", "        for _, iso in sorted(self._isotopes.items(), key=lambda kv: str(kv[0])):")],
 'M8-change_table-drops-charge-isotope-ions': [("            return table[atom.number][atom.isotope].ion[atom.charge]", "            return table[atom.number][atom.isotope]")],
 'M9-element-reduce-ignores-table': [("        return _make_element, (self.table, self.number)", "        return _make_element, (PUBLIC_TABLE_NAME, self.number)")],
 'M10-ion-reduce-isotope-ion-of-D-T-as-element-ion': [("""            return _make_isotope_ion, (self.element.table,""", """            if 'symbol' in self.element.__dict__: raise AttributeError('alias')
            return _make_isotope_ion, (self.element.table,""")],
 'M11-ionset-accepts-negated-charge': [("            if charge not in self.element_or_isotope.ions:", "            if charge not in self.element_or_isotope.ions and -charge not in self.element_or_isotope.ions:")],
 'M12-ionset-cache-shared-by-symbol': [("""        self.ionset = {}
    def __getitem__""", """        self.ionset = IonSet._shared.setdefault((element_or_isotope.table, element_or_isotope.symbol), {})
    def __getitem__"""), ("class IonSet(object):\n", "class IonSet(object):\n    _shared = {}\n")],
 'M13-add_isotope-overwrites': [("""        if number not in self._isotopes:
            self._isotopes[number] = Isotope(self, number)""", """        if number not in self._isotopes or number == 3:
            self._isotopes[number] = Isotope(self, number)""")],
 'M14-isotope-nearest-above-200': [("""                if isotope in attr.isotopes:
                    return attr[isotope]""", """                if isotope in attr.isotopes:
                    return attr[isotope]
                if isotope > 290 and attr.isotopes:
                    return attr[attr.isotopes[-1]]""")],
 'M15-isotope-reduce-private-ion-public': [("""            return _make_ion, (self.element.table,""", """            return _make_ion, (PUBLIC_TABLE_NAME if self.charge < -3 else self.element.table,""")],
 'M16-table-iter-by-symbol-for-ties': [("        for _, el in sorted(self._element.items()):", "        for _, el in sorted(self._element.items(), key=lambda kv: (kv[0] if kv[0] < 104 else 300 - kv[0])):")],
 'M17-define_elements-alias-name-swapped': [("""    for el in [table.D, table.T]:
        names[el.symbol] = el
        names[el.name] = el""", """    for el in [table.D, table.T]:
        names[el.symbol] = el
        names[el.name] = table.D""")],
 'M21-private-D-is-public-D': [("        self.D = self.H.add_isotope(2)\n", "        self.D = self.H.add_isotope(2) if table == PUBLIC_TABLE_NAME else PRIVATE_TABLES[PUBLIC_TABLE_NAME].D\n")],
 'M23-isotope-reduce_ex-old-protocols': [("    def __reduce__(self):\n        return _make_isotope, (self.element.table,", "    def __reduce_ex__(self, protocol):\n        if protocol < 2:\n            import copyreg; return copyreg._reduce_ex(self, protocol)\n        return self.__reduce__()\n    def __reduce__(self):\n        return _make_isotope, (self.element.table,")],
 'M24-ionset-cache-key-abs': [("            self.ionset[charge] = Ion(self.element_or_isotope, charge)\n        return self.ionset[charge]", "            self.ionset[charge] = self.ionset.get(-charge) if (charge > 3 and -charge in self.ionset) else Ion(self.element_or_isotope, charge)\n        return self.ionset[charge]")],
 'L25-lenient-strip-whitespace': [("        parts = input.split('-')\n", "        parts = [p.strip() for p in input.split('-')]\n"), ("        if hasattr(self, input):\n            value = getattr(self, input)", "        input = input.strip()\n        if hasattr(self, input):\n            value = getattr(self, input)"), ("        for el in self:\n            if input == el.name:", "        input = input.strip()\n        for el in self:\n            if input == el.name:")],
 'L26-lenient-other-notations': [("        parts = input.split('-')\n", "        import re\n        m = re.fullmatch(r'([A-Za-z]+)\\[(\\d+)\\]', input)\n        if m: input = m.group(2) + '-' + m.group(1)\n        m = re.fullmatch(r'(\\d+)(?:\\.0|e0)?[ ]?([A-Za-z]+)', input)\n        if m: input = m.group(1) + '-' + m.group(2)\n        input = re.sub(r'^(\\d+)(\\.0|e0)-', r'\\1-', input)\n        parts = input.split('-')\n")],
 'M19-isotope-accepts-name': [("""        if hasattr(self, symbol):
            attr = getattr(self, symbol)
            if isinstance(attr, Element):""", """        if not hasattr(self, symbol) and isotope == 0:
            try:
                return self.name(symbol)
            except ValueError:
                pass
        if hasattr(self, symbol):
            attr = getattr(self, symbol)
            if isinstance(attr, Element):""")],
 'M20-getitem-accepts-string-Z': [("        return self._element[Z]", "        return self._element[int(Z) if isinstance(Z, str) else Z]")],
}
def apply(name):
    src = open(ORIG).read()
    for old, new in MUTS[name]:
        assert src.count(old) == 1, (name, src.count(old))
        src = src.replace(old, new)
    open(DST, 'w').write(src)
if __name__ == '__main__':
    name = sys.argv[1]
    if name == 'restore':
        shutil.copy(ORIG, DST)
    else:
        apply(name)
