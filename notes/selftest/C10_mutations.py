"""Sensitivity driver for C10: apply one mutation to the repaired scratch copy, run the repo tests,
run ./check C10 (private copy of /verif with D26 listed), record, revert."""
import json, os, subprocess, sys, time, glob, collections

REPO = '/tmp/nbuild_c10_repo'
VERIF = '/tmp/nbuild_c10_verif'
PKG = os.path.join(REPO, 'periodictable')

def rep(fname, old, new, count=1):
    p = os.path.join(PKG, fname)
    s = open(p).read()
    assert s.count(old) >= 1, (fname, old)
    open(p, 'w').write(s.replace(old, new, count))

MUT = collections.OrderedDict()

def m1():
    rep('covalent_radius.py', "        table[Z].covalent_radius_uncertainty = dr\n",
        "        from .core import default_table\n        default_table()[Z].covalent_radius_uncertainty = dr\n")
MUT['M1 covalent_radius.init writes the uncertainty to the PUBLIC table element instead of table[Z]'] = m1

def m2():
    rep('formulas.py', "    if table not in _PARSER_CACHE:\n        _PARSER_CACHE[table] = formula_grammar(table)\n    return _PARSER_CACHE[table].parseString(formula_str)[0]",
        "    if type(table) not in _PARSER_CACHE:\n        _PARSER_CACHE[type(table)] = formula_grammar(table)\n    return _PARSER_CACHE[type(table)].parseString(formula_str)[0]")
MUT['M2 _PARSER_CACHE keyed by type(table): the first table parsed with serves all later parses'] = m2

def m3():
    rep('core.py', "def _make_isotope(table, Z, n):\n    return _get_table(table)[Z][n]", "def _make_isotope(table, Z, n):\n    return PUBLIC_TABLE[Z][n]")
MUT['M3 _make_isotope ignores the table name (restores into the public table)'] = m3

def m4():
    rep('magnetic_ff.py', "            el.magnetic_ff[charge] = MagneticFormFactor()\n",
        "            el.magnetic_ff[charge] = _FF_CACHE.setdefault((symbol, charge), MagneticFormFactor())\n")
    rep('magnetic_ff.py', "def init(table, reload=False):", "_FF_CACHE = {}\ndef init(table, reload=False):")
MUT['M4 magnetic_ff.init shares one MagneticFormFactor object per (symbol, charge) between tables'] = m4

def m5():
    rep('xsf.py', "        if '_xray' not in el.__dict__ and isinstance(el, (Element, Ion)):\n            el._xray = Xray(el)\n        return el._xray",
        "        if '_xray' not in el.__dict__ and isinstance(el, (Element, Ion)):\n            el._xray = _XRAY_CACHE.setdefault((el.symbol, el.charge), Xray(el))\n        return el._xray")
    rep('xsf.py', "def init(table, reload=False):\n", "_XRAY_CACHE = {}\ndef init(table, reload=False):\n")
MUT['M5 xsf caches the Xray object per (symbol, charge) across tables'] = m5

def m6():
    rep('activation.py', "        activation = getattr(iso, 'neutron_activation', [])\n",
        "        activation = _ROWS.setdefault((kw['Z'], kw['A']), [])\n")
    rep('activation.py', "def init(table, reload=False):", "_ROWS = {}\ndef init(table, reload=False):")
MUT['M6 activation.init appends the rows of every table to one shared list per nuclide'] = m6

def m7():
    rep('nsf.py', "        atom.neutron.nsf_table = wavelength[::-1], xs[::-1]\n",
        "        atom.neutron.nsf_table = _ED_CACHE.setdefault((el_name, iso_num), (wavelength[::-1], xs[::-1]))\n")
    rep('nsf.py', "def energy_dependent_init(table):", "_ED_CACHE = {}\ndef energy_dependent_init(table):")
MUT['M7 nsf: energy-dependent (wavelength, b_c) arrays cached and shared between tables'] = m7

def m8():
    rep('density.py', "        if isinstance(v, tuple):\n            el._density = v[0]\n            el.density_caveat = v[1]\n",
        "        if isinstance(v, tuple):\n            el._density = v[0]\n            from .core import default_table\n            getattr(default_table(), k).density_caveat = v[1]\n")
MUT['M8 density.init stores the caveat of the few elements that have one on the PUBLIC element'] = m8

def m9():
    rep('crystal_structure.py', "    if 'crystal_structure' in table.properties and not reload:\n        return\n    table.properties.append('crystal_structure')\n",
        "    from .core import default_table\n    if 'crystal_structure' in default_table().properties and not reload:\n        return\n    table.properties.append('crystal_structure')\n    if table is not default_table(): default_table().properties.append('crystal_structure')\n")
MUT['M9 crystal_structure.init guard looks at the PUBLIC table: init(T) is a no-op once the public group is loaded (and marks it loaded)'] = m9

def m10():
    rep('covalent_radius.py', "    table[0].covalent_radius = 0.20\n    Element.covalent_radius_units = 'angstrom'\n    Element.covalent_radius = None\n    Element.covalent_radius_uncertainty = None\n",
        "    Element.covalent_radius_units = 'angstrom'\n    Element.covalent_radius = None\n    Element.covalent_radius_uncertainty = None\n    table[0].covalent_radius = 0.20\n")
MUT['M10 covalent_radius.init assigns the class defaults BEFORE the first per-atom assignment (replaces the pending property without loading the public table)'] = m10

def m11():
    rep('core.py', "def _make_isotope_ion(table, Z, n, c):\n    return _get_table(table)[Z][n].ion[c]", "def _make_isotope_ion(table, Z, n, c):\n    return _get_table(PUBLIC_TABLE_NAME if n == 2 else table)[Z][n].ion[c]")
MUT['M11 _make_isotope_ion restores ions of mass-number-2 isotopes (D) into the public table only'] = m11

def m12():
    rep('nsf.py', "    if table is not public and 'neutron' not in public.properties:\n        init(public)\n",
        "    if table is not public and 'neutron' not in public.properties and len(PRIVATE_NSF) > 0:\n        init(public)\n    PRIVATE_NSF.append(table)\n")
    rep('nsf.py', "def energy_dependent_init(table):", "PRIVATE_NSF = []\ndef energy_dependent_init(table):")
MUT['M12 D7 repair only effective from the second nsf.init on (first private nsf.init before the public touch still replaces the pending property)'] = m12

def m14():
    rep('density.py', "    return (element.density/element.mass)*avogadro_number", "    from .core import default_table\n    return (element.density/default_table()[element.number].mass)*avogadro_number")
MUT['M14 density.number_density divides by the PUBLIC element mass (T reads public data; visible only after T.mass was mutated)'] = m14

def m16():
    rep('core.py', "    try:\n        return PRIVATE_TABLES[name]\n", "    try:\n        return PRIVATE_TABLES[name] if name == PUBLIC_TABLE_NAME else list(PRIVATE_TABLES.values())[-1]\n")
MUT['M16 _get_table returns the most recently created private table for any private name (needs two tables and a pickle of the older one)'] = m16

def m18():
    rep('core.py', "        self.ion = IonSet(self)\n        # Remember the table name for pickle dump/load", "        self.ion = _IONSETS.setdefault(symbol, IonSet(self))\n        # Remember the table name for pickle dump/load")
    rep('core.py', "class IonSet(object):", "_IONSETS = {}\nclass IonSet(object):")
MUT['M18 Element.__init__ shares one IonSet per symbol between tables (T.Fe.ion[2] is the public ion)'] = m18

def sh(cmd, **kw):
    return subprocess.run(cmd, shell=True, capture_output=True, text=True, **kw)

def main():
    which = sys.argv[1:]
    results = []
    assert sh('git -C %s status --short' % REPO).stdout.split() == ['M', 'periodictable/core.py', 'M', 'periodictable/crystal_structure.py', 'M', 'periodictable/nsf.py'], 'scratch must carry exactly the 3 repairs'
    sh('git -C %s diff > /tmp/c10_repairs.diff' % REPO)
    for name, fn in MUT.items():
        tag = name.split()[0]
        if which and tag not in which:
            continue
        fn()
        t = sh('cd %s && /venv/bin/python -m pytest -q -p no:cacheprovider 2>&1 | tail -1' % REPO).stdout.strip()
        t0 = time.time()
        env = dict(os.environ, VERIF_REPO=REPO)
        if os.environ.get('RANDOMS'):
            env['PVMON_C10_RANDOM'] = os.environ['RANDOMS']
        r = subprocess.run('./check C10 --tier quick', shell=True, cwd=VERIF, env=env, capture_output=True, text=True)
        wall = time.time() - t0
        open('/tmp/c10_mut_%s.log' % tag, 'w').write(r.stdout + r.stderr)
        lines = [l for l in r.stdout.splitlines() if l.startswith('VIOLATION') or l.startswith('  check=')]
        by = collections.Counter(); kinds = collections.Counter()
        for f in glob.glob(VERIF + '/out/C10/*/run/shard*.json') + glob.glob(VERIF + '/out/C10/run/shard*.json'):
            d = json.load(open(f))
            by.update(d['bykey'])
            for v in d['violations']:
                if v['key'] is None:
                    kinds[(v['detail'].get('clause'), v['detail'].get('kind'), v['detail'].get('group'))] += 1
        summ = [l for l in r.stdout.splitlines() if l.startswith('C10 ')]
        res = {'mutation': name, 'suite': t, 'exit': r.returncode, 'violation_lines': len([l for l in lines if l.startswith('VIOLATION')]),
               'first': lines[1][:260] if len(lines) > 1 else '', 'bykey': dict(by), 'unlisted_kinds': {str(k): v for k, v in kinds.items()},
               'summary': summ[-1] if summ else '', 'wall': round(wall, 1)}
        results.append(res)
        print(json.dumps(res, indent=1)); sys.stdout.flush()
        sh('git -C %s checkout -q . && git -C %s apply /tmp/c10_repairs.diff' % (REPO, REPO))
        sh('rm -rf %s/out/C10' % VERIF)
    json.dump(results, open('/tmp/c10_mut_results_%s.json' % ('_'.join(which) or 'all'), 'w'), indent=1)

main()
