"""Sensitivity runs for C02, C13, C19 (see C02.md, C13.md, C19.md in this directory).

usage: /venv/bin/python notes/selftest/c02_c13_c19_mutations.py <repaired-copy> <out.json> [name ...]

For each mutation: copy the repaired tree (all proposed fixes D12, D13, D21, D22 applied) to a scratch
directory, apply one textual edit, run the repository's 42 tests on the copy, run
`VERIF_REPO=<copy> ./check <ID> --tier quick`, record exit code and the first VIOLATION message.
Nothing under /repo or /verif (other than the out file) is written.
"""
import json
import os
import shutil
import subprocess
import sys
import tempfile

F = 'periodictable/formulas.py'
C = 'periodictable/core.py'

MUTATIONS = [
    # ---------------- C02
    ('C02', 'rmul-shortcut-drops-inner-count', F,
     "                ret.structure = ((other*q, f), )\n",
     "                ret.structure = ((other, f), )\n"),
    ('C02', 'add-extends-self-in-place', F,
     "        ret = Formula()\n        ret.structure = tuple(list(self.structure) + list(other.structure))\n        return ret\n",
     "        self.structure = tuple(list(self.structure) + list(other.structure))\n        return self\n"),
    ('C02', 'ion-mass-adds-electrons', C,
     "return getattr(self.element, 'mass') - constants.electron_mass*self.charge",
     "return getattr(self.element, 'mass') + constants.electron_mass*self.charge"),
    ('C02', 'count-atoms-resets-total-for-count-1-group', F,
     "            partial = _count_atoms(fragment)\n",
     "            partial = _count_atoms(fragment)\n            if count == 1:\n                total = partial\n                continue\n"),
    ('C02', 'rmul-by-one-returns-self', F,
     "        ret = copy(self)\n",
     "        ret = self if other == 1 else copy(self)\n"),
    ('C02', 'rmul-ignores-multipliers-below-one', F,
     "        if other != 1 and self.structure:\n",
     "        if other > 1 and self.structure:\n"),
    ('C02', 'mass-fraction-uses-neutral-mass-for-ions', F,
     "        return dict((a, m*a.mass/total_mass) for a, m in self.atoms.items())\n",
     "        return dict((a, m*(a.element.mass if ision(a) else a.mass)/total_mass) for a, m in self.atoms.items())\n"),
    ('C02', 'immutable-truncates-counts', F,
     "    return tuple((count+0, _immutable(fragment)) for count, fragment in seq)\n",
     "    return tuple((int(count) if count >= 1 else count+0, _immutable(fragment)) for count, fragment in seq)\n"),
    ('C02', 'iadd-on-alias-of-operand-structure', F,
     "        self.structure = tuple(list(self.structure) + list(other.structure))\n        return self\n",
     "        self.structure = tuple(list(self.structure) + list(other.structure))\n        other.name = self.name\n        return self\n"),
    # ---------------- C13
    ('C13', 'count-format-3-digits', F,
     '    text = "%g"%count\n',
     '    text = "%.3g"%count\n'),
    ('C13', 'charge-tag-before-isotope-tag', F,
     """            if isisotope(fragment) and 'symbol' not in isotope.__dict__:
                ret += "%s[%d]"%(fragment.symbol, fragment.isotope)
            else:
                ret += fragment.symbol
            if fragment.charge != 0:
                sign = '+' if fragment.charge > 0 else '-'
                value = str(abs(fragment.charge)) if abs(fragment.charge) > 1 else ''
                ret += '{'+value+sign+'}'
""",
     """            ret += fragment.symbol
            if fragment.charge != 0:
                sign = '+' if fragment.charge > 0 else '-'
                value = str(abs(fragment.charge)) if abs(fragment.charge) > 1 else ''
                ret += '{'+value+sign+'}'
            if isisotope(fragment) and 'symbol' not in isotope.__dict__:
                ret += "[%d]"%(fragment.isotope)
"""),
    ('C13', 'no-parentheses-around-single-atom-group', F,
     '                piece = "(%s)%s"%(_str_atoms(fragment), _str_count(count))\n',
     '                piece = "(%s)%s"%(_str_atoms(fragment), _str_count(count))\n'
     '                if len(fragment) == 1 and isatom(fragment[0][1]) and fragment[0][0] == 1:\n'
     '                    piece = _str_atoms(fragment) + _str_count(count)\n'),
    ('C13', 'group-count-elided-when-at-most-one', F,
     "            if count == 1:\n                piece = _str_atoms(fragment)\n",
     "            if count <= 1:\n                piece = _str_atoms(fragment)\n"),
    ('C13', 'charge-value-after-sign', F,
     "                ret += '{'+value+sign+'}'\n",
     "                ret += '{'+sign+value+'}'\n"),
    ('C13', 'repr-without-quotes', F,
     """        return "formula('%s')"%(str(self))\n""",
     """        return "formula(%s)"%(str(self))\n"""),
    ('C13', 'fixed-point-fallback-keeps-seven-digits', F,
     "        text = format(Decimal(text), 'f')\n",
     "        text = format(Decimal('%.7g'%count), 'f')\n"),
    ('C13', 'D-and-T-ions-print-isotope-tag-again', F,
     "            isotope = fragment.element if ision(fragment) else fragment\n",
     "            isotope = fragment\n"),
    ('C13', 'fixed-point-fallback-only-for-large-counts', F,
     "    if 'e' in text:\n",
     "    if 'e+' in text:\n"),
    ('C13', 'atom-count-printed-only-above-one', F,
     "            if count != 1:\n                ret += _str_count(count)\n",
     "            if count > 1:\n                ret += _str_count(count)\n"),
    # ---------------- C19
    ('C19', 'hill-key-sorts-isotopes-as-strings', F,
     "            a.isotope if isisotope(a) else 0, a.charge)\n",
     "            str(a.isotope) if isisotope(a) else '', a.charge)\n"),
    ('C19', 'hill-drops-zero-count-atoms', F,
     "        return formula(self.atoms)\n",
     "        return formula(dict((a, c) for a, c in self.atoms.items() if c != 0))\n"),
    ('C19', 'hill-class-by-first-letter', F,
     '    return (a.symbol not in ("C", "H"), a.symbol,\n',
     '    return (a.symbol[0] not in "CH", a.symbol,\n'),
    ('C19', 'hill-key-without-charge', F,
     "            a.isotope if isisotope(a) else 0, a.charge)\n",
     "            a.isotope if isisotope(a) else 0)\n"),
    ('C19', 'hill-structure-is-a-list-again', F,
     "    return tuple((atoms[el], el) for el in sorted(atoms.keys(), key=_hill_key))\n",
     "    return [(atoms[el], el) for el in sorted(atoms.keys(), key=_hill_key)]\n"),
    ('C19', 'only-carbon-is-special', F,
     '    return (a.symbol not in ("C", "H"), a.symbol,\n',
     '    return (a.symbol != "C", a.symbol,\n'),
    ('C19', 'D-and-T-sorted-as-hydrogen-isotopes', F,
     '    return (a.symbol not in ("C", "H"), a.symbol,\n',
     '    return (a.symbol not in ("C", "H", "D", "T"), "H" if a.symbol in ("D", "T") else a.symbol,\n'),
    ('C19', 'isotopes-in-descending-order', F,
     "            a.isotope if isisotope(a) else 0, a.charge)\n",
     "            -a.isotope if isisotope(a) else 0, a.charge)\n"),
]


def run(cmd, cwd, env=None, timeout=1800):
    e = dict(os.environ)
    if env:
        e.update(env)
    p = subprocess.run(cmd, cwd=cwd, env=e, capture_output=True, text=True, timeout=timeout)
    return p.returncode, p.stdout + p.stderr


def main(argv):
    base, outfile = argv[0], argv[1]
    only = set(argv[2:])
    results = []
    if os.path.exists(outfile):
        results = json.load(open(outfile))
    for prop, name, path, old, new in MUTATIONS:
        if only and name not in only and prop not in only:
            continue
        tmp = tempfile.mkdtemp(prefix='nbuild_c02_mut_')
        copy = os.path.join(tmp, 'repo')
        try:
            shutil.copytree(base, copy)
            fn = os.path.join(copy, path)
            src = open(fn).read()
            if src.count(old) != 1:
                results.append({'property': prop, 'mutation': name, 'outcome': 'not applicable: anchor text found %d times' % src.count(old)})
                continue
            open(fn, 'w').write(src.replace(old, new))
            rc, out = run(['/venv/bin/python', '-m', 'pytest', '-q', '-p', 'no:cacheprovider', '-x'], copy)
            suite = [l for l in out.splitlines() if ' passed' in l or ' failed' in l or 'error' in l.lower()][-1:]
            rc2, out2 = run(['./check', prop, '--tier', 'quick'], '/verif', env={'VERIF_REPO': copy})
            lines = [l for l in out2.splitlines() if 'WARNING conda' not in l]
            viol = [l for l in lines if l.startswith('VIOLATION')]
            msgs = [l.strip() for l in lines if l.strip().startswith('check=')]
            summary = [l for l in lines if l.startswith(prop + ' quick')]
            results = [r for r in results if r['mutation'] != name]
            results.append({'property': prop, 'mutation': name, 'file': path, 'suite_rc': rc, 'suite': suite,
                            'check_exit': rc2, 'violations_listed': len(viol), 'first': msgs[:2],
                            'summary': summary, 'inconclusive': [l for l in lines if l.startswith('INCONCLUSIVE')][:3]})
            print(prop, name, 'suite rc', rc, 'check exit', rc2, (msgs[:1] or [''])[0][:200])
            sys.stdout.flush()
        finally:
            shutil.rmtree(tmp, ignore_errors=True)
        json.dump(results, open(outfile, 'w'), indent=1)


if __name__ == '__main__':
    main(sys.argv[1:])
