# Mutation runner used for notes/selftest/C14.md and C15.md.
# usage: python c14_c15_mutations.py <tree-with-the-activation-repairs> C14|C15 [mutation names...]
# (runs ./check from /tmp/nb_verif, a private copy of the framework whose KNOWN_FINDINGS.txt lists the remaining findings;
#  the same mutations are stored as C14-*.diff / C15-*.diff next to this file, relative to the repaired tree)
import subprocess, sys, os, shutil, json
BASE = sys.argv[1]           # tree with the fixes
PROP = sys.argv[2]
which = sys.argv[3:]
MUT = {
 'C14': {
  'm1_rest_decay_base2': [("result[ai] = [activity*exp(-lam*Ti) for Ti in rest_times]", "result[ai] = [activity*2**(-Ti) for Ti in rest_times]")],
  'm2_epithermal_wrong_column': [("initialXS = ai.thermalXS + env.epithermal_reduction_factor*ai.resonance\n", "initialXS = ai.thermalXS + env.epithermal_reduction_factor*ai.resonance_parent\n")],
  'm3_fast_rows_at_fast_ratio_0': [("        if ai.fast and env.fast_ratio == 0:\n            continue\n", ""), ("flux = env.fluence/env.fast_ratio if ai.fast else env.fluence", "flux = env.fluence/env.fast_ratio if (ai.fast and env.fast_ratio) else env.fluence")],
  'm4_cd_ratio_strictly_above_1': [("return 1./self.Cd_ratio if self.Cd_ratio >= 1 else 0", "return 1./self.Cd_ratio if self.Cd_ratio > 1 else 0")],
  'm5_product_burnup_on_reaction_flux': [("V = (env.fluence*effectiveXS*3600*1e-24+lam)*exposure", "V = (flux*effectiveXS*3600*1e-24+lam)*exposure"), ("W = lam/(lam-flux*initialXS*3600*1e-24+env.fluence*effectiveXS*3600*1e-24)", "W = lam/(lam-flux*initialXS*3600*1e-24+flux*effectiveXS*3600*1e-24)")],
  'm6_mass_number_vs_isotope_mass': [("root = flux * initialXS * 1e-24 * mass / isotope.isotope * 1.6278e19", "root = flux * initialXS * 1e-24 * mass / isotope.mass * 1.6278e19")],
  'm7_accumulate_overwrites': [("self.activity[el] = [T+v for T, v in zip(el_total, activity_el)]", "self.activity[el] = [v for T, v in zip(el_total, activity_el)]")],
  'm8_abundance_function_ignored': [("iso_mass = self.mass*frac*abundance(el[iso])*0.01", "iso_mass = self.mass*frac*el[iso].abundance*0.01")],
  'm9_small_argument_guard_or': [("if abs(U) < 1e-10 and abs(V) < 1e-10:", "if abs(U) < 1e-10 or abs(V) < 1e-10:")],
  'm10_parent_halflife_for_daughter_2n': [("product_2n = lam if ai.reaction == '2n' else 0", "product_2n = parent_lam if ai.reaction == '2n' else 0")],
  'm11_b_branch_parent_daughter_swapped': [("lam*expm1(-parent_lam*exposure) - parent_lam*expm1(-lam*exposure))", "parent_lam*expm1(-parent_lam*exposure) - lam*expm1(-lam*exposure))")],
 },
 'C15': {
  'n1_acceptance_1_percent': [("if percent_error > 0.1:", "if percent_error > 1:")],
  'n2_early_exit_strict': [("if f(0) <= 0:", "if f(0) < 0:")],
  'n3_decay_constant_without_ln2': [("data = [(Ia[min_rest], LN2/a.Thalf_hrs) for a, Ia in self.activity.items()]", "data = [(Ia[min_rest], 1/a.Thalf_hrs) for a, Ia in self.activity.items()]")],
  'n4_reference_time_first_entry': [("        # Find the activity at that time, and the decay rate\n", "        To = self.rest_times[0]\n        # Find the activity at that time, and the decay rate\n")],
  'n5_time_from_smallest_rest': [("        return t\n", "        return t - To\n")],
  'n6_early_exit_at_smallest_rest': [("if f(0) <= 0:", "if f(To) <= 0:")],
  'n7_early_exit_half_percent_slack': [("if f(0) <= 0:", "if f(0) <= 0.005*target:")],
 },
}
res = {}
for name, edits in MUT[PROP].items():
    if which and name not in which: continue
    d = '/tmp/nb_mut_%s' % name
    shutil.rmtree(d, ignore_errors=True)
    shutil.copytree(BASE, d, ignore=shutil.ignore_patterns('.git'))
    p = d + '/periodictable/activation.py'
    s = open(p, encoding='iso-8859-15').read()
    for a, b in edits:
        assert s.count(a) == 1, (name, a, s.count(a))
        s = s.replace(a, b)
    open(p, 'w', encoding='iso-8859-15').write(s)
    t = subprocess.run(['/venv/bin/python', '-m', 'pytest', '-q', '-p', 'no:cacheprovider'], cwd=d, capture_output=True, text=True).stdout.strip().splitlines()[-1]
    env = dict(os.environ, VERIF_REPO=d, VERIF_OUT='/tmp/nb_out_mut')
    r = subprocess.run(['./check', PROP, '--tier', 'quick', '--seed', '0'], cwd='/tmp/nb_verif', env=env, capture_output=True, text=True)
    lines = r.stdout.splitlines()
    viol = [l for l in lines if l.startswith('VIOLATION')]
    first = next((l for l in lines if l.strip().startswith('check=')), '')
    bykey = next((l for l in lines if l.startswith('BYKEY')), '')
    print('%s | suite: %s | exit %d | %d VIOLATION lines | %s | %s' % (name, t, r.returncode, len(viol), bykey[:300], first.strip()[:260]), flush=True)
    shutil.rmtree(d, ignore_errors=True)
shutil.rmtree('/tmp/nb_out_mut', ignore_errors=True)
