import periodictable as pt, pickle, copy
from periodictable import core
from collections import Counter
el = pt.elements
acc = Counter(); ex = {}
def tryit(cls, fn, key):
    try: r = fn()
    except Exception as e: return
    acc[cls]+=1; ex.setdefault(cls, []).append((key, repr(r)))
valid_syms = {e.symbol for e in el} | {'D','T'}
valid_names = {e.name for e in el} | {'deuterium','tritium'}
for e in el:
    s, n = e.symbol, e.name
    for v in {s.lower(), s.upper(), s+'x', s[0], ' '+s, s+' ', s+'1'} - valid_syms:
        tryit('symbol', lambda: el.symbol(v), v); tryit('isotope-sym', lambda: el.isotope(v), v)
        if v.isidentifier(): tryit('module-attr', lambda: getattr(pt, v), v) if not hasattr(pt, v) else None
    for v in {n.upper(), n.capitalize(), n+'s', n[:-1], ' '+n} - valid_names:
        tryit('name', lambda: el.name(v), v)
    isos = set(e.isotopes)
    for A in sorted({a+d for a in isos for d in (-1,1)} - isos | {0, -1}):
        tryit('el[A]', lambda: e[A], (s, A))
        tryit('isotope-str', lambda: el.isotope('%d-%s'%(A, s)), '%d-%s'%(A, s))
    for A in list(isos)[:2]:
        for bad in ['%d-%s-1'%(A,s), '%s-%d'%(s,A), '%d-'%A, '-%s'%s, '%d-%s '%(A,s), '%d- %s'%(A,s), '%d.0-%s'%(A,s), '%d-%s'%(A, s.lower()), '+%d-%s'%(A,s), '%d_-%s'%(A,s)]:
            tryit('isotope-malformed', lambda: el.isotope(bad), bad)
    for q in sorted(({c+d for c in e.ions for d in (-1,1)} | {0, 10, -10}) - set(e.ions)):
        tryit('ion[q]', lambda: e.ion[q], (s, q))
        for A in list(isos)[:1]: tryit('iso.ion[q]', lambda: e[A].ion[q], (s, A, q))
for v in ['properties','list','symbol','name','isotope','_element','__class__','__init__', 'D2', 'n1', '']:
    tryit('table-attr', lambda: el.symbol(v), v); tryit('table-attr-iso', lambda: el.isotope(v), v)
for z in [-1, 119, 200, 1.5, '1', None]:
    tryit('el[Z]', lambda: el[z], z)
print(acc)
for k, v in ex.items(): print(k, v[:8])
