import re, math
from fractions import Fraction
from decimal import Decimal
import periodictable as pt
from periodictable import mass as M, density as Dn, nsf
# independent uncertainty parser
def pu(s):
    s = s.strip()
    if s == '': return None, None
    m = re.fullmatch(r'\[([0-9.]+)\]', s)
    if m: return float(m.group(1)), 0.0
    m = re.fullmatch(r'\[([0-9.]+),([0-9.]+)\]', s)
    if m:
        lo, hi = float(m.group(1)), float(m.group(2)); return (hi+lo)/2, (hi-lo)/math.sqrt(12)
    m = re.fullmatch(r'([0-9.]+)\(([0-9.]+)\)#?', s)
    if m:
        v, u = m.group(1), m.group(2)
        if '.' in u or '.' not in v: return float(v), float(u)
        nd = len(v.split('.')[1])
        return float(v), float(Decimal(u).scaleb(-nd))
    m = re.fullmatch(r'[0-9.]+#?', s)
    if m: return float(s.rstrip('#')), 0.0
    raise ValueError(s)
bad = 0; forms = {}
for line in M.isotope_mass.split('\n'):
    iso, m, p, avg = line.split(',')
    z, sym, a = iso.split('-')
    k = re.sub(r'[0-9]', 'd', m); forms[k] = forms.get(k,0)+1
    at = pt.elements[int(z)][int(a)]
    v, u = pu(m)
    if at.mass != v or abs(at._mass_unc - u) > 1e-18*max(1,abs(u))+1e-300: 
        bad += 1; print('iso mass', iso, m, at.mass, at._mass_unc, v, u)
print('forms', len(forms), list(forms.items())[:12]); print('bad iso', bad)
# element masses
emass = {}
for line in M.element_mass.split('\n'):
    z, sym, name, value = line.split()[:4]; emass[int(z)] = value
# fallback from isotope_mass avg column
last_avg = {}
for line in M.isotope_mass.split('\n'):
    iso, m, p, avg = line.split(','); last_avg[int(iso.split('-')[0])] = avg
bad = 0
for el in pt.elements:
    if el.number == 0: continue
    src = emass.get(el.number, '-')
    if src == '-': src = last_avg[el.number]
    v, u = pu(src)
    if el.mass != v or (u is not None and abs(el._mass_unc-u)>1e-15): bad+=1; print('el mass', el, src, el.mass, el._mass_unc, v, u)
print('bad el', bad, [ (z,v) for z,v in emass.items() if v=='-'][:5], len(emass))
# are avg columns consistent per element?
seen = {}
for line in M.isotope_mass.split('\n'):
    iso, m, p, avg = line.split(','); z=int(iso.split('-')[0])
    if z in seen and seen[z] != avg: print('avg differs', z, seen[z], avg)
    seen[z] = avg
# abundance
ab = {}; z=None
for line in M.isotope_abundance.split('\n'):
    if line[0] not in ' \t': z = int(line.split()[0]); ab[z] = {}
    else:
        parts = line.split(); ab[z][int(parts[0])] = pu(parts[1])
bad=0
for z, d in ab.items():
    tot = sum(v[0] for v in d.values())
    el = pt.elements[z]
    s = sum(i.abundance for i in el)
    if abs(s-100) > 1e-9: print('sum', el, s)
    for a,(v,u) in d.items():
        if abs(el[a].abundance - 100*v/tot) > 1e-12: bad+=1
    for i in el:
        if i.isotope not in d and i.abundance != 0: print('nonzero', i)
    # atomic weight consistency
    w = sum(i.abundance/100*i.mass for i in el)
    if s and abs(w - el.mass) > 3*max(el._mass_unc, 1e-9): print('weight', el, w, el.mass, el._mass_unc, abs(w-el.mass)/el._mass_unc if el._mass_unc else None)
print('bad ab', bad, len(ab), abs(sum(v[0] for v in ab[8].values())-1))
for el in pt.elements:
    if el.number not in ab and any(i.abundance for i in el): print('abund without table', el)
# density
for k, v in Dn.element_densities.items():
    el = getattr(pt.elements, k)
    d = v[0] if isinstance(v, tuple) else v
    if el.density != d: print('density', k, v, el.density)
print(len(Dn.element_densities), sum(1 for e in pt.elements if not hasattr(e,'_density')))
for el in pt.elements:
    if el.density is None: 
        assert el.number_density is None and el.interatomic_distance is None; continue
    n, d = el.number_density, el.interatomic_distance
    assert abs(n - el.density*6.02214179e23/el.mass) < 1e-9*n
    assert abs(n*d**3 - 1e24) < 1e-9*1e24, (el, n*d**3)
    for i in el:
        assert abs(i.density - el.density*i.mass/el.mass) < 1e-12
print('ok density')
print(pt.Fe[56].number_density, pt.Fe.number_density, pt.Fe[56].interatomic_distance, pt.Fe.interatomic_distance)
