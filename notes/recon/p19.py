import re, math
import numpy as np
import periodictable as pt
from periodictable import nsf
from periodictable.nsf_tables import ENERGY_DEPENDENT_TABLES
def num(s):
    s = s.strip().replace('<','').replace('*','')
    if s == '': return None
    m = re.fullmatch(r'([-+]?[0-9.]+(?:[eE][-+]?[0-9]+)?)(?:\(([0-9.]+)\))?', s)
    if not m: raise ValueError(s)
    return float(m.group(1))
forms = set()
rows = nsf.nsftable.split('\n'); print(len(rows))
bad = 0; seen_el = {}
for line in rows:
    c = line.split(',')
    assert len(c) == 11, line
    parts = c[0].split('-'); Z = int(parts[0]); A = int(parts[2]) if len(parts)==3 else 0
    el = pt.elements[Z]; assert el.symbol == parts[1]
    at = el[A] if A else el
    n = at.neutron
    exp = dict(b_c=num(c[3]), bp=num(c[4]), bm=num(c[5]), coherent=num(c[7]), incoherent=num(c[8]), total=num(c[9]), absorption=num(c[10]))
    for cc in c[1:]: forms.add(re.sub(r'[0-9]','d',cc))
    # gap fill
    if (Z,A) == (54,0): exp['total'] = exp['coherent']+exp['incoherent']
    if (Z,A) == (63,151): exp['b_c'] = math.sqrt(exp['coherent']/(4*math.pi/100))
    for k,v in exp.items():
        if getattr(n,k) != v: bad+=1; print('mismatch', c[0], k, getattr(n,k), v)
    if n.is_energy_dependent != (c[6]=='E'): print('E flag', c[0])
    if A:
        if at.nuclear_spin != c[2]: print('spin', c[0])
        ab = 0 if ' ' in c[1] else num(c[1])
        if n.abundance != ab: print('abund', c[0], n.abundance, ab)
        seen_el.setdefault(Z, []).append(A)
    else:
        seen_el.setdefault(Z, []).insert(0, 0)
    bcc = (exp['b_c'] if exp['b_c'] is not None else float('nan')) - 1j*exp['absorption']/(2000*1.798)
    if not (n.b_c_complex == bcc or (np.isnan(bcc) and np.isnan(n.b_c_complex))): print('bcc', c[0], n.b_c_complex, bcc)
print('bad', bad, sorted(forms))
# elements without natural row
for Z, L in seen_el.items():
    el = pt.elements[Z]
    if 0 not in L:
        print('no natural row', el, L, 'element record is isotope', [a for a in L if el[a].neutron is el.neutron])
# atoms not in table
cnt = 0
intable = {(int(l.split(',')[0].split('-')[0]), int(l.split(',')[0].split('-')[2]) if l.split(',')[0].count('-')==2 else 0) for l in rows}
for el in pt.elements:
    if (el.number,0) not in intable and el.number not in [z for z,L in seen_el.items()]:
        if el.neutron.has_sld(): print('unexpected sld', el)
    for iso in el:
        if (el.number, iso.isotope) not in intable:
            cnt += 1
            if iso.neutron.has_sld() or iso.neutron.b_c is not None: print('unexpected iso sld', iso)
print('isotopes not in table', cnt)
# imaginary
for line in nsf.nsftableI.split('\n'):
    c = line.split(','); parts = c[0].split('-'); Z=int(parts[0]); A=int(parts[2]) if len(parts)==3 else 0
    at = pt.elements[Z][A] if A else pt.elements[Z]
    exp = [num(x) for x in c[1:]]
    got = [at.neutron.b_c_i, at.neutron.bp_i, at.neutron.bm_i]
    if got != exp: print('imag', c[0], got, exp)
# who else has b_c_i set (leak via shared records)?
for el in pt.elements:
    for at in [el]+list(el):
        if at.neutron.b_c_i is not None: print('b_c_i', at, at.neutron.b_c_i, end='; ')
print()
# energy dependent nodes
for (sym, A), vals in ENERGY_DEPENDENT_TABLES.items():
    at = getattr(pt.elements, sym); at = at[A] if A else at
    worst = 0
    for E, re_, im_, ab_ in vals:
        wl = nsf.neutron_wavelength(E*1000)
        b, s = at.neutron.scattering_by_wavelength(float(wl))
        worst = max(worst, abs(b - (re_+1j*im_)))
    print(sym, A, len(vals), 'worst', worst, 'flag', at.neutron.is_energy_dependent, end=' | ')
print()
print(pt.Lu.neutron.nsf_table is not None, pt.Lu.neutron.is_energy_dependent, pt.Lu[176].neutron.is_energy_dependent)
print([ (str(at)) for el in pt.elements for at in [el]+list(el) if at.neutron.is_energy_dependent])
print([ (str(at)) for el in pt.elements for at in [el]+list(el) if at.neutron.nsf_table is not None])
