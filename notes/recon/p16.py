import io, os, tempfile
import periodictable as pt
from periodictable import fasta, formula
from periodictable.fasta import Sequence, AMINO_ACID_CODES, DNA_CODES, RNA_CODES, read_fasta
s = Sequence("x", "ACDB Z*XYZ", type='aa')
print(s.sequence, s.labile_formula, s.cell_volume, s.charge, s.mass, s.Dmass, s.labile_formula.density, s.natural_formula.density)
parts = [AMINO_ACID_CODES[c] for c in "ACDBZ"]
print(sum(p.cell_volume for p in parts), sum(p.charge for p in parts), sum(p.mass for p in parts), sum(p.Dmass for p in parts))
print(AMINO_ACID_CODES['B'].labile_formula, AMINO_ACID_CODES['B'].charge, AMINO_ACID_CODES['B'].cell_volume, AMINO_ACID_CODES['X'].labile_formula, AMINO_ACID_CODES['X'].charge, AMINO_ACID_CODES['-'].labile_formula.atoms, AMINO_ACID_CODES['-'].cell_volume)
print(sorted(AMINO_ACID_CODES), sorted(DNA_CODES), sorted(RNA_CODES))
e = Sequence("e", "", type='aa'); print('empty', e.labile_formula.atoms, e.cell_volume, e.mass, e.sld, e.D2Omatch, e.labile_formula.density)
for bad in ["O", "U", "a", "1"]:
    try: Sequence("b", bad)
    except Exception as ex: print('bad', bad, type(ex).__name__, ex)
f1 = formula("aa:ACD"); print(f1, f1.density, Sequence(None, "ACD").labile_formula == f1, Sequence(None,"ACD").labile_formula.density)
f2 = formula("dna:ACGT"); print(f2, f2.density); f3 = formula("rna:ACGU"); print(f3)
try: print(formula("xyz:ACD"))
except Exception as ex: print('xyz', type(ex).__name__, ex)
print(formula("aa:ACD", density=2).density, formula("aa:ACD", name='q').name)
d = Sequence("d", "ACGTRYKMSWBDHVNX-", type='dna'); print(d.labile_formula, d.cell_volume)
parts=[DNA_CODES[c] for c in "ACGTRYKMSWBDHVNX-"]; print(sum(p.cell_volume for p in parts))
tot = {}
for p in parts:
    for a,n in p.labile_formula.atoms.items(): tot[a]=tot.get(a,0)+n
print({a: (n, d.labile_formula.atoms[a]) for a,n in tot.items()})
txt = ">seq1 desc\nACD\nEFG\n\n>seq2\n>seq3\nHIK*LL\n"
print(list(read_fasta(io.StringIO(txt))))
txt2 = "ACD\n>seq1\nAA\n"; print(list(read_fasta(io.StringIO(txt2))))
txt3 = ">s\r\nAC\r\nDE\r\n"; print(list(read_fasta(io.StringIO(txt3, newline=''))))
d_ = tempfile.mkdtemp()
for ext, typ in [('.fna','dna'),('.ffn','dna'),('.faa','aa'),('.frn','rna'),('.fasta','aa'),('.txt','aa')]:
    p = os.path.join(d_, 'x'+ext); open(p,'w').write(">a\nACGT\n>b\nGG\n")
    seqs = list(Sequence.loadall(p)); one = Sequence.load(p)
    ref = Sequence('r', 'ACGT', type=typ)
    print(ext, [q.name for q in seqs], [q.sequence for q in seqs], one.labile_formula == ref.labile_formula, seqs[0].labile_formula == ref.labile_formula)
import shutil; shutil.rmtree(d_)
