import periodictable as pt
from periodictable import formula
from periodictable.formulas import Formula
f = formula("H2O"); g = formula("NaCl")
h = f+g
print(h.structure, f.structure)
k = 2*f; print(k.structure, f.structure)
k = 2*formula("Ca"); print(k.structure, k.density)
k = 0*f; print('0*f', k.structure, k.atoms)
k = 1*f; print(k is f, k.structure is f.structure)
k = 2.5*(f+g); print(k.structure, k.atoms)
f2 = formula(f); f2 += g; print('iadd', f2.structure, f.structure)
# density after rmul: copy keeps density
w = formula("H2O@1"); print((2*w).density, (w+w).density)
# name kept?
w = formula("H2O", name="water"); print(str(2*w), repr(2*w))
# dict constructor
d = formula({pt.H:2, pt.O:1}); print(type(d.structure), d.structure)
print(formula("H2O").hill == formula("H2O"), formula("H2O").hill.structure, formula("H2O").structure)
print(formula("H2O").hill == formula("H2O").hill)
print(formula("OH2").hill.hill.structure)
# sequences
s = formula([(1,pt.Ca),(2,[(1,pt.O),(1,pt.H)])]); print(s.structure)
s = formula(((1,pt.Ca),)); print(s.structure)
try:
    print(formula([(1,'Ca')]).structure)
except Exception as e: print('ERR', type(e), e)
try:
    print(formula([('a',pt.Ca)]).structure)
except Exception as e: print('ERR', type(e), e)
print(formula([(-1,pt.Ca)]).atoms)
# ion mass
print(pt.Na.ion[1].mass, pt.Na.mass - pt.constants.electron_mass)
print(pt.Fe[56].ion[2].mass, pt.Fe[56].mass - 2*pt.constants.electron_mass)
# mass fraction
mf = formula("Na{+}Cl{-}").mass_fraction; print(mf, sum(mf.values()))
# numpy multipliers
import numpy as np
print((np.float64(2.0)*f).structure)
try: print((np.int64(2)*f).structure)
except Exception as e: print("ERR", e)
print((True*f).structure)
try: print(('2'*f).structure)
except Exception as e: print("ERR", type(e), e)
print(f*2 if hasattr(f,'__mul__') else 'no __mul__')
