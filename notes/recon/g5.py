import random, numpy as np
import periodictable as pt
from periodictable import formula, neutron_scattering, core
from periodictable.nsf import neutron_wavelength, neutron_energy, neutron_wavelength_from_velocity, neutron_composite_sld, neutron_sld
rng = random.Random(5)
atoms = [a for e in pt.elements for a in [e]+list(e) if a.neutron.has_sld()]
ions = [e.ion[q] for e in pt.elements if e.neutron.has_sld() for q in e.ions[:1]]
print(len(atoms), len(ions))
def flat7(r):
    (a,b,c),(d,e,f),g = r
    return np.array([np.atleast_1d(x) for x in (a,b,c,d,e,f,g)], dtype=float)
worst = {}
def rel(a,b):
    a = np.asarray(a, float).reshape(7,-1); b = np.asarray(b, float).reshape(7,-1)
    scale_sld = np.abs(b[0]) + np.abs(b[1])
    scale_xs = b[3] + b[4] + b[5]
    floor = np.array([1e-300*np.ones_like(scale_sld)]*7)
    floor[2] = 1e-7*scale_sld + 1e-300      # sld_inc = sqrt of a clipped difference
    floor[5] = 1e-13*scale_xs + 1e-300      # inc_xs = clipped difference
    d = np.abs(a-b)
    d = np.where(d <= floor*1.0, 0, d)
    return np.max(d/np.maximum(np.abs(b), 1e-300))
for it in range(3000):
    n = rng.randint(1,6)
    comp = {}
    for _ in range(n):
        a = rng.choice(atoms+ions); comp[a] = comp.get(a,0)+rng.choice([1,2,3,0.5,10**rng.uniform(-3,3)])
    rho = 10**rng.uniform(-3, 1.4); wl = 10**rng.uniform(-1.3, 1.7)
    base = neutron_scattering(comp, density=rho, wavelength=wl)
    if base[0] is None: continue
    b = flat7(base)
    assert (b[1:6] >= 0).all() and b[6] > 0
    k = 10**rng.uniform(-2,2)
    r = flat7(neutron_scattering(comp, density=rho*k, wavelength=wl))
    exp = b.copy(); exp[:6] *= k; exp[6] /= k
    worst['density'] = max(worst.get('density',0), rel(r, exp))
    c = 10**rng.uniform(-3,3)
    r = flat7(neutron_scattering({a: v*c for a,v in comp.items()}, density=rho, wavelength=wl))
    worst['cell'] = max(worst.get('cell',0), rel(r, b))
    # regroup: nested structure, shuffled
    items = list(comp.items()); rng.shuffle(items)
    cut = rng.randint(0, len(items)); m = rng.choice([2, 3.5])
    struct = [(v, a) for a,v in items[:cut]] + ([(m, [(v/m, a) for a,v in items[cut:]])] if items[cut:] else [])
    r = flat7(neutron_scattering(formula(struct), density=rho, wavelength=wl))
    worst['regroup'] = max(worst.get('regroup',0), rel(r, b))
    r = flat7(neutron_scattering(comp, density=rho, energy=float(neutron_energy(wl))))
    worst['energy'] = max(worst.get('energy',0), rel(r, b))
    wls = [wl, 10**rng.uniform(-1.3,1.7), 10**rng.uniform(-1.3,1.7)]
    rv = flat7(neutron_scattering(comp, density=rho, wavelength=wls))
    for i,w in enumerate(wls):
        ri = flat7(neutron_scattering(comp, density=rho, wavelength=w))[:,0]
        worst['vector'] = max(worst.get('vector',0), rel(rv[:,i], ri))
print(worst)
E = 10**np.random.uniform(-2,3,1000); L = neutron_wavelength(E)
print(np.ptp(E*L**2)/np.mean(E*L**2), np.max(np.abs(neutron_energy(L)-E)/E))
