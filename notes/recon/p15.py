import numpy as np
import periodictable as pt
from periodictable import nsf, formula, fasta
from periodictable.nsf import D2O_sld, D2O_match, neutron_sld, neutron_composite_sld
H,D,H1 = pt.H, pt.D, pt.H[1]
def direct(comp, d, **kw):
    mol = formula(comp, **kw)
    Hf = mol.replace(H1, H); 
    # fraction d of labile → D, rest → H, constant cell volume
    atoms = mol.atoms
    nl = atoms.get(H1, 0)
    mixed = mol.replace(H1, D, d).replace(H1, H)   # replace portion d by D then rest by H
    return neutron_sld(mixed), mixed
for comp, kw in [("C3H4H[1]NO@1.29n", {}), ("SiO2@2.2", {}), ("C27H45H[1]O@1.05n", {}), ("D2O@1n", {}), ("C3H4DH[1]2NO@1.3n", {})]:
    for d in [0, 0.3, 1]:
        a = D2O_sld(comp, volume_fraction=1, D2O_fraction=d, **kw)
        b, mixed = direct(comp, d, **kw)
        print(comp, d, a, b, mixed.density)
    print('match', D2O_match(comp, **kw))
    print('vf0', D2O_sld(comp, volume_fraction=0, D2O_fraction=0.3), neutron_sld("H2O@0.9982n"), neutron_sld("D2O@0.9982n"))
# solvent mixture at fraction d: H2O/D2O by volume
from periodictable import mix_by_volume
m = mix_by_volume("H2O@0.9982n", 70, "D2O@0.9982n", 30); print(neutron_sld(m), m.density)
# Molecule
M = fasta.Molecule("ala", "C3H4H[1]NO", cell_volume=91.5)
print(M.sld, M.Dsld, M.D2Omatch, M.D2Osld(1, 0.3), M.D2Osld(0.5,0.3))
kw = dict(density=M.labile_formula.density)
print(D2O_match(M.labile_formula), D2O_sld(M.labile_formula, 1, 0.3), D2O_sld(M.labile_formula, 0.5, 0.3))
print(M.labile_formula.density, M.natural_formula.density)
# composite
mats = [formula("H2O"), formula("D2O"), formula("Gd[155]"), formula("NaCl")]
for wl in [4.75, np.array([4.75]), np.array([1.0, 4.75, 10.0])]:
    calc = neutron_composite_sld(mats, wavelength=wl)
    w = np.array([1.0, 2.0, 0.5, 0.0])
    got = calc(w, density=1.3)
    tot = formula()
    for wi, m in zip(w, mats): tot += wi*m
    want = neutron_sld(tot, density=1.3, wavelength=wl)
    print(type(wl), got, want)
calc = neutron_composite_sld(mats, wavelength=np.array([1.0, 4.75]))
print(calc(np.zeros(4), density=1), calc(np.array([1.,0,0,0]), density=0))
try: print(calc([1,2,0.5,0], density=1.3))
except Exception as e: print('list weights', type(e).__name__, e)
calc = neutron_composite_sld(mats[:1], wavelength=4.75); print(calc(np.array([2.0]), density=1), neutron_sld("H2O", density=1, wavelength=4.75))
calc = neutron_composite_sld([formula("H2O"), formula("NaCl")], wavelength=[4.75, 5]); print(calc(np.array([2.0, 1]), density=1), neutron_sld("2H2O+NaCl", density=1, wavelength=[4.75,5]))
