import periodictable as pt
from periodictable import formula
a = formula("Fe{2+}Fe{3+}O4"); b = formula("Fe{3+}Fe{2+}O4")
print(a.atoms == b.atoms, a.hill == b.hill, a.hill.structure, b.hill.structure)
a = formula("FeFe{3+}"); b = formula("Fe{3+}Fe")
print(a.atoms == b.atoms, a.hill == b.hill, a.hill.structure, b.hill.structure)
a = formula("H[1]H"); b = formula("HH[1]"); print(a.hill==b.hill, a.hill.structure)
a = formula("DHT"); print(a.hill.structure, str(a.hill))
a = formula("CDH"); print(a.hill.structure, str(a.hill))
# float accumulate
a = formula("H0.1H0.2"); b=formula("H0.3"); print(a.atoms, b.atoms, a.hill==b.hill)
# str/parse roundtrip
for s in ["D{+}", "D2O", "T{+}2", "H[2]{+}", "H[1]", "Fe[56]{2+}3", "(H2O)1000000", "(H2O)1234567", "H0.000001", "H0.0000001","H1234567.5", "H100000", "H1000000"]:
    f = formula(s)
    p = str(f)
    try:
        g = formula(p)
        print(s, '->', p, '->', g.structure, g == f)
    except Exception as e:
        print(s, '->', p, 'REPARSE FAILS', type(e).__name__, e)
print(repr(formula("H2O")), repr(formula("H2O", name="water")))
