"""C05 compound / refraction / reflectivity / f0 oracle prototype."""
import os, re, math, random, bisect
import numpy as np
import periodictable as pt
from periodictable import xsf, core, formula, cromermann
from periodictable.constants import avogadro_number, electron_radius, plancks_constant, speed_of_light, electron_mass
rng = random.Random(5)
path = os.path.join(os.path.dirname(pt.__file__), 'xsf')
TAB = {}
def table(sym):
    if sym not in TAB:
        rows = []
        with open(os.path.join(path, sym.lower()+'.nff')) as f:
            next(f)
            for line in f:
                p = line.split()
                if len(p) >= 3: rows.append((float(p[0])*0.001, float(p[1]), float(p[2])))
        TAB[sym] = rows
    return TAB[sym]
def f12(sym, e):
    rows = table(sym); E = [r[0] for r in rows]
    if e < E[0] or e > E[-1]: return float('nan'), float('nan')
    j = min(bisect.bisect_right(E, e)-1, len(E)-2)
    (e0,a0,b0),(e1,a1,b1) = rows[j], rows[j+1]; t = (e-e0)/(e1-e0)
    if a0 == -9999. or a1 == -9999.: f1 = float('nan')
    else: f1 = a0+t*(a1-a0)
    return f1, b0+t*(b1-b0)
els = [e for e in pt.elements if e.xray.sftable is not None]
def key(a): return (a.number, a.isotope if core.isisotope(a) else 0, a.charge)
def mass_of(k):
    Z,A,q = k; base = pt.elements[Z][A] if A else pt.elements[Z]
    return base.mass - q*electron_mass
worst = {}
def upd(name, r): worst[name] = max(worst.get(name,0), r)
for it in range(2000):
    comp = {}
    for _ in range(rng.randint(1,5)):
        e = rng.choice(els); a = e
        if rng.random()<0.3 and e.isotopes: a = e[rng.choice(e.isotopes)]
        if rng.random()<0.3 and a.ions and not (core.isisotope(a) and a.number==1 and a.isotope in (2,3)): a = a.ion[rng.choice(a.ions)]
        comp[a] = comp.get(a,0)+rng.choice([1,2,3,0.5,10**rng.uniform(-2,2)])
    rho = 10**rng.uniform(-2,1.4); E = 10**rng.uniform(-1.4, 1.45)
    if E > 1.80 and E < 1.87: continue   # Si window
    kc = {key(a): v for a,v in comp.items()}
    Mm = sum(v*mass_of(k) for k,v in kc.items())
    s1 = sum(v*f12(pt.elements[k[0]].symbol, E)[0] for k,v in kc.items()); s2 = sum(v*f12(pt.elements[k[0]].symbol, E)[1] for k,v in kc.items())
    N = rho/Mm*avogadro_number*1e-8
    exp = (N*s1*electron_radius, N*s2*electron_radius)
    got = xsf.xray_sld(comp, density=rho, energy=E)
    for g,x in zip(got, exp):
        if x != x: assert g != g; continue
        upd('sld', abs(g-x)/max(abs(x),1e-12))
    wl = plancks_constant*speed_of_light/E*1e7
    got2 = xsf.xray_sld(comp, density=rho, wavelength=wl)
    if exp[0]==exp[0]: upd('wl-vs-E', max(abs(a-b)/max(abs(b),1e-12) for a,b in zip(got2, got)))
    k = 10**rng.uniform(-1,1); got3 = xsf.xray_sld(comp, density=rho*k, energy=E)
    if exp[0]==exp[0]: upd('density-linear', max(abs(a-b*k)/max(abs(b*k),1e-12) for a,b in zip(got3, got)))
    gv = xsf.xray_sld(comp, density=rho, energy=[E, E*1.01])
    if exp[0]==exp[0]: upd('vector', max(abs(np.asarray(a)[0]-b)/max(abs(b),1e-12) for a,b in zip(gv, got)))
    # isotope independence at equal natural density
    natcomp = {}
    for a,v in comp.items():
        n = a
        if core.isisotope(a): n = (a.element if not a.charge else a.element.element.ion[a.charge]) if True else None
        natcomp[n] = natcomp.get(n,0)+v
    gi = xsf.xray_sld(comp, natural_density=rho, energy=E); gn = xsf.xray_sld(natcomp, density=rho, energy=E)
    has_iso_ion = any(core.isisotope(a) and a.charge for a in comp) or any(a.charge for a in comp)
    if exp[0]==exp[0]: upd('iso-indep' + (':ion' if has_iso_ion else ''), max(abs(a-b)/max(abs(b),1e-12) for a,b in zip(gi, gn)))
    # refraction
    nn = xsf.index_of_refraction(comp, density=rho, energy=E)
    if exp[0]==exp[0]:
        en = 1 - wl**2/(2*math.pi)*complex(exp[0], exp[1])*1e-6
        upd('refr', abs(nn-en)/abs(en))
    # reflectivity
    R = xsf.mirror_reflectivity(comp, density=rho, energy=[E, E*1.1], angle=[0.0, 0.01, 0.2, 1, 10, 45, 90], roughness=rng.choice([0, 3, 10]))
    R = R[~np.isnan(R)]
    if R.size: upd('R-max', float(R.max())); worst['R-min'] = min(worst.get('R-min', 1), float(R.min()))
print(worst)
# f0 sweep
cromermann.getCMformula('Fe')
# own reader
data = open(os.path.join(path, 'f0_WaasKirf.dat')).read().split('\n')
CM = {}; i = 0
while i < len(data):
    if data[i].startswith('#S'):
        sym = data[i].split()[2]
        while not data[i].startswith('#L'): i += 1
        vals = [float(x) for x in data[i+1].split()]; CM[sym] = (vals[0:5], vals[5], vals[6:11]); i += 1
    i += 1
print(len(CM), all(np.allclose(cromermann._cmformulas[s].a, CM[s][0]) and cromermann._cmformulas[s].c == CM[s][1] and np.allclose(cromermann._cmformulas[s].b, CM[s][2]) for s in CM), set(CM)==set(cromermann._cmformulas))
wf = 0; nan_ok = True
for e in pt.elements:
    for a in [e] + [e.ion[q] for q in e.ions]:
        sym = e.symbol + ('%d%s'%(abs(a.charge), '+' if a.charge>0 else '-') if a.charge else '')
        try: v = a.xray.f0([0, 1.0, 7.5, 24*math.pi, 24*math.pi*1.0001])
        except KeyError:
            assert sym not in CM, sym; continue
        assert sym in CM, sym
        A_, c_, B_ = CM[sym]
        for Q, g in zip([0, 1.0, 7.5, 24*math.pi], v[:4]):
            s = Q/(4*math.pi); x = sum(ai*math.exp(-bi*s*s) for ai,bi in zip(A_,B_)) + c_
            wf = max(wf, abs(g-x)/max(abs(x),1e-12))
        nan_ok &= bool(np.isnan(v[4])) and abs(v[0] - (e.number - a.charge)) < 0.1
print('f0 worst', wf, 'nan/e-count ok', nan_ok)
