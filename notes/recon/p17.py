import re, numpy as np
import periodictable as pt
from periodictable import magnetic_ff as M, covalent_radius as CR, cromermann
# independent parse of CFML
data = M.CFML_DATA
entries = re.findall(r'(Magnetic_\w+)\(\s*(\d+)\)\s*=\s*Magnetic_Form_Type\("([^"]*)",\s*&?\s*\(/([^/]*)/\)', data)
print(len(entries))
from collections import Counter, defaultdict
exp = defaultdict(dict)
for kind, idx, state, vals in entries:
    vals = tuple(float(v) for v in vals.split(','))
    state = state.strip()
    if kind == 'Magnetic_Form':
        jn = 'j0' if state[0]=='M' else 'J'; state = state[1:]
    else: jn = kind.split('_')[1]
    m = re.match(r'([A-Z]{1,2})(\d)$', state)
    sym, ch = m.group(1).capitalize(), int(m.group(2))
    if jn in exp[(sym,ch)]: print('dup', sym, ch, jn)
    exp[(sym,ch)][jn] = vals
print(len(exp), Counter(len(v) for v in exp.values()))
bad = 0
for (sym,ch), d in exp.items():
    el = pt.elements.symbol(sym)
    ff = el.magnetic_ff[ch]
    for jn, vals in d.items():
        if getattr(ff, jn) != vals: bad += 1; print('mismatch', sym, ch, jn)
    extra = set(k for k in ff.__dict__) - set(d)
    if extra: print('extra', sym, ch, extra)
# elements with magnetic_ff not in exp
have = {(el.symbol, ch) for el in pt.elements if hasattr(el,'magnetic_ff') for ch in el.magnetic_ff}
print(len(have), have == set(exp), bad)
# j0(0)
worst = max((abs(sum(d['j0'][0:7:2]) - 1), k) for k,d in exp.items() if 'j0' in d); print('j0(0) worst', worst)
worstJ = max((abs(sum(d['J'][0:7:2]) - 1), k) for k,d in exp.items() if 'J' in d); print('J(0) worst', worstJ)
for k,d in exp.items():
    if 'j0' in d and abs(sum(d['j0'][0:7:2])-1) > 0.005: print('j0 off', k, sum(d['j0'][0:7:2]))
print(pt.Fe.magnetic_ff[2].j2_Q(0), pt.Fe.magnetic_ff[2].j0_Q([0, 1, 5, 30]))
print([el.symbol for el in pt.elements if hasattr(el, 'magnetic_ff')][:50])
print(hasattr(pt.H, 'magnetic_ff'), hasattr(pt.H, 'crystal_structure'), pt.Og.covalent_radius, hasattr(pt.Og, 'crystal_structure'), hasattr(pt.Og,'K_alpha'))
# ions valid?
for (sym,ch) in exp:
    el = pt.elements.symbol(sym)
    if ch != 0 and ch not in el.ions: print('ff charge not an ion', sym, ch)
# covalent radius
rows = [l.split() for l in CR.Cordero.split('\n')]
print(len(rows), sum(1 for r in rows if r[0] != '-'), [r for r in rows if r[0]=='-'][:8])
for r in rows:
    if r[0] == '-': continue
    Z = int(r[0]); el = pt.elements[Z]
    sym = re.match(r'[A-Z][a-z]?', r[1]).group(0)
    if sym != el.symbol and not r[1].startswith(el.symbol): print('sym mismatch', r, el)
    if el.covalent_radius != float(r[2]): print('radius mismatch', r, el.covalent_radius)
    unc = float(r[3])*0.01 if len(r)>3 else 0
    if abs(el.covalent_radius_uncertainty-unc)>1e-15: print('unc mismatch', r)
print(pt.Mn.covalent_radius, pt.Fe.covalent_radius, pt.Co.covalent_radius, pt.C.covalent_radius, pt.Cm.covalent_radius, pt.Bk.covalent_radius)
print([l for l in CR.Cordero.split('\n') if 'Mn' in l or 'Fe' in l or 'Co' in l or l.startswith('6 ') ])
