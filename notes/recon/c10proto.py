"""Prototype C10: random interleavings of private-table activity vs public reads, forked from a pristine interpreter."""
import os, sys, pickle, random, traceback, hashlib, time, collections
import numpy as np, pyparsing
import periodictable as pt
from periodictable import core
el = pt.elements
exec(open('/verif/notes/recon/lazy_explorer_proto.py').read().split("def safe(fn):")[0].split("def norm(v):")[1].join(["def norm(v):", ""]) if False else "")
def norm(v):
    if isinstance(v, np.ndarray): return ('nd', v.shape, hashlib.md5(np.nan_to_num(v, nan=-777.).tobytes()).hexdigest())
    if isinstance(v, (list, tuple)): return tuple(norm(x) for x in v)
    if isinstance(v, dict): return tuple(sorted((str(k), norm(x)) for k, x in v.items()))
    if isinstance(v, (float, np.floating)): return 'nan' if v != v else float(v)
    if isinstance(v, (complex, np.complexfloating)): return ('c', repr(complex(v)))
    if isinstance(v, (int, str, bool, type(None))): return v
    if hasattr(v, '__dict__'): return (type(v).__name__, norm({k: x for k, x in vars(v).items() if k not in ('element',)}))
    return repr(v)
def safe(fn):
    try: return norm(fn())
    except Exception as e: return ('EXC', type(e).__name__, str(e)[:80])
GROUPS = ['mass','density','neutron','xray','emission','covrad','crystal','magff','activation']
def gdigest(table, g):
    d = {}
    for e in table:
        k = e.symbol
        if g == 'mass': d[k] = safe(lambda: (e.mass, e._mass_unc, [(i.isotope, i.mass, i.abundance) for i in e]))
        elif g == 'density': d[k] = safe(lambda: (e.density, e.density_caveat, e.number_density, e.interatomic_distance))
        elif g == 'neutron': d[k] = safe(lambda: (vars(e.neutron), [(i.isotope, vars(i.neutron) if 'neutron' in i.__dict__ else None, i.__dict__.get('nuclear_spin')) for i in e]))
        elif g == 'xray': d[k] = safe(lambda: (e.xray.scattering_factors(energy=8.0), e.xray.sld(energy=8.0), [e.ion[q].xray.scattering_factors(energy=8.0) for q in e.ions[:1]]))
        elif g == 'emission': d[k] = safe(lambda: (e.K_alpha, e.K_beta1, e.K_alpha_units, e.K_beta1_units))
        elif g == 'covrad': d[k] = safe(lambda: (e.covalent_radius, e.covalent_radius_uncertainty, e.covalent_radius_units))
        elif g == 'crystal': d[k] = safe(lambda: e.crystal_structure)
        elif g == 'magff': d[k] = safe(lambda: {q: vars(f) for q, f in e.magnetic_ff.items()})
        elif g == 'activation': d[k] = safe(lambda: [(i.isotope, [vars(r) for r in i.__dict__.get('neutron_activation', [])]) for i in e])
    return d
def initT(T, g):
    from periodictable import mass, density, nsf, xsf, covalent_radius, crystal_structure, magnetic_ff, activation
    {'mass': mass.init, 'density': density.init, 'neutron': nsf.init, 'xray': xsf.init, 'emission': xsf.init_spectral_lines,
     'covrad': covalent_radius.init, 'crystal': crystal_structure.init, 'magff': magnetic_ff.init, 'activation': activation.init}[g](T)
def pubread(g):
    Fe = el.Fe
    return {'mass': lambda: Fe.mass, 'density': lambda: Fe.density, 'neutron': lambda: (Fe.neutron.b_c, Fe[56].neutron.b_c, pt.neutron_sld('Fe2O3', density=5)),
            'xray': lambda: Fe.xray.sld(energy=8.0), 'emission': lambda: (Fe.K_alpha, Fe.K_alpha_units), 'covrad': lambda: (Fe.covalent_radius, Fe.covalent_radius_units),
            'crystal': lambda: Fe.crystal_structure, 'magff': lambda: vars(Fe.magnetic_ff[2]), 'activation': lambda: [vars(r) for r in Fe[58].neutron_activation]}[g]()
def mutT(T, g):
    Fe = T.Fe
    if g == 'mass': Fe._mass += 1; Fe[56]._mass += 1; Fe[56]._abundance = 5
    elif g == 'density': Fe._density += 1; Fe.density_caveat = 'x'
    elif g == 'neutron': Fe.neutron.b_c = 99.; Fe[56].neutron.total = 99.; T.Gd.neutron.nsf_table[1][:] = 0; T.At.neutron.b_c = 5
    elif g == 'xray': Fe.xray.sftable[1] *= 2; Fe.xray.newfield = 1
    elif g == 'emission': Fe.K_alpha = 9.; T.H.K_alpha = 1.
    elif g == 'covrad': Fe.covalent_radius = 9.; Fe.covalent_radius_uncertainty = 9.
    elif g == 'crystal': Fe.crystal_structure['a'] = 9.; T.At.crystal_structure = {'symmetry': 'x'}
    elif g == 'magff': Fe.magnetic_ff[2].j0 = (1,2,3,4,5,6,7); Fe.magnetic_ff[9] = Fe.magnetic_ff[2]; T.H.magnetic_ff = {}
    elif g == 'activation': Fe[58].neutron_activation[0].thermalXS = 99.; Fe[58].neutron_activation.append(Fe[58].neutron_activation[0]); Fe[56].neutron_activation = []
def run_child(fn):
    r, w = os.pipe(); pid = os.fork()
    if pid == 0:
        os.close(r)
        try: res = ('ok', fn())
        except BaseException: res = ('err', traceback.format_exc())
        with os.fdopen(w, 'wb') as f: pickle.dump(res, f)
        os._exit(0)
    os.close(w)
    with os.fdopen(r, 'rb') as f: res = pickle.load(f)
    os.waitpid(pid, 0); return res
def canonical():
    for g in GROUPS: pubread(g)
    return {g: gdigest(el, g) for g in GROUPS}
def play(hist, canon):
    """hist: list of (op, table index, group). returns list of violation strings"""
    tables = {}; inited = collections.defaultdict(set); mutated = collections.defaultdict(set); viol = []
    for op, ti, g in hist:
        if op == 'new': tables[ti] = core.PeriodicTable('T%d'%ti)
        elif op == 'init':
            try: initT(tables[ti], g); inited[ti].add(g)
            except Exception as e: viol.append('init-exc %s %s %s'%(g, type(e).__name__, str(e)[:60]))
        elif op == 'pub':
            v = safe(lambda: pubread(g)); c = canon['_reads'][g]
            if v != c: viol.append('pubread %s -> %s'%(g, str(v)[:80]))
        elif op == 'mut':
            try:
                mutT(tables[ti], g); mutated[ti].add(g)
                mutated[ti] |= {'mass': {'density','neutron','xray'}, 'density': {'neutron','xray'}}.get(g, set())
            except Exception as e: viol.append('mut-exc %s %s %s'%(g, type(e).__name__, str(e)[:60]))
        elif op == 'chkT':   # fresh-T equals public canonical
            if g in inited[ti] and g not in mutated[ti]:
                d = gdigest(tables[ti], g)
                diff = [k for k in d if d[k] != canon[g][k]]
                if diff: viol.append('freshT %s differs at %s: %s'%(g, diff[:3], str(d[diff[0]])[:80]))
    # final: public digest after forcing loads
    for g in GROUPS:
        v = safe(lambda: pubread(g))
        if v != canon['_reads'][g]: viol.append('final pubread %s -> %s'%(g, str(v)[:80]))
        d = gdigest(el, g)
        diff = [k for k in d if d[k] != canon[g][k]]
        if diff: viol.append('final public digest %s differs at %s'%(g, diff[:3]))
    # unmutated tables' groups still canonical
    for ti, T in tables.items():
        for g in inited[ti] - mutated[ti]:
            d = gdigest(T, g); diff = [k for k in d if d[k] != canon[g][k]]
            if diff: viol.append('final T%d digest %s differs at %s'%(ti, g, diff[:3]))
    return viol
def gen_hist(rng):
    hist = [('new', 1, None)]; have = {1: set()}
    n = rng.randint(2, 14)
    if rng.random() < 0.4: hist.append(('new', 2, None)); have[2] = set()
    for _ in range(n):
        ti = rng.choice(list(have))
        r = rng.random()
        if r < 0.4:
            g = rng.choice(GROUPS)
            need = {'neutron': ['mass','density'], 'xray': ['mass','density'], 'activation': ['mass'], 'density': ['mass']}.get(g, [])
            for p in need:
                if p not in have[ti]: g = p; break
            hist.append(('init', ti, g)); have[ti].add(g)
        elif r < 0.65: hist.append(('pub', 0, rng.choice(GROUPS)))
        elif r < 0.8 and have[ti]: hist.append(('mut', ti, rng.choice(sorted(have[ti]))))
        elif have[ti]: hist.append(('chkT', ti, rng.choice(sorted(have[ti]))))
    return hist
if __name__ == '__main__':
    t0 = time.time()
    st, canon = run_child(canonical)
    def reads():
        for g in GROUPS: pubread(g)
        return {g: safe(lambda: pubread(g)) for g in GROUPS}
    st, canon['_reads'] = run_child(reads)
    rng = random.Random(int(sys.argv[1]) if len(sys.argv) > 1 else 0)
    N = int(sys.argv[2]) if len(sys.argv) > 2 else 300
    mech = collections.Counter(); first = {}
    nbad = 0
    for i in range(N):
        h = gen_hist(rng)
        st, viol = run_child(lambda: play(h, canon))
        if st != 'ok': print('ERR', viol); continue
        if viol: nbad += 1
        for v in viol:
            k = ' '.join(v.split()[:4]); mech[k] += 1; first.setdefault(k, (h, v))
    print('histories', N, 'bad', nbad, '%.1fs'%(time.time()-t0))
    for k, c in mech.most_common(): print(c, k, '|', first[k][1][:150], '| hist:', [x for x in first[k][0]][:8])
