import os, bisect, math, random
import numpy as np
import periodictable as pt
from periodictable import xsf
rng = random.Random(1)
path = os.path.join(os.path.dirname(pt.__file__), 'xsf')
def read(sym):
    rows = []
    with open(os.path.join(path, sym.lower()+'.nff')) as f:
        next(f)
        for line in f:
            p = line.split()
            if len(p) >= 3: rows.append((float(p[0])*0.001, None if float(p[1]) == -9999. else float(p[1]), float(p[2])))
    return rows
def badwin(rows):
    E = [r[0] for r in rows]; wins = []
    for i in range(len(E)-1):
        if E[i+1] <= E[i]:
            lo = min(E[max(i-1,0)], E[i+1]); hi = max(E[min(i+2,len(E)-1)], E[i])
            wins.append((lo, hi))
    return wins
def ref(rows, e):
    E = [r[0] for r in rows]
    if e < E[0] or e > E[-1] or e != e: return (float('nan'), float('nan'), True)
    j = bisect.bisect_right(E, e) - 1
    if j >= len(E)-1: j = len(E)-2
    (e0, a0, b0), (e1, a1, b1) = rows[j], rows[j+1]
    t = (e - e0)/(e1 - e0)
    f2 = b0 + t*(b1-b0)
    if e == e0: f1, ok = a0, a0 is not None
    elif e == e1: f1, ok = a1, a1 is not None
    else:
        ok = a0 is not None and a1 is not None
        f1 = a0 + t*(a1-a0) if ok else None
    return f1, f2, ok
worst = 0; n=0; skipped=0; nanmis=0
for el in pt.elements:
    if el.xray.sftable is None: continue
    rows = read(el.symbol); wins = badwin(rows)
    E = [r[0] for r in rows]
    pts = list(E) + [(a+b)/2 for a,b in zip(E,E[1:])] + [10**rng.uniform(math.log10(E[0]), math.log10(E[-1])) for _ in range(200)] + [E[0]*0.999, E[-1]*1.001, 0.0, 1e3]
    for e in pts:
        if any(lo <= e <= hi for lo,hi in wins): skipped += 1; continue
        g1, g2 = el.xray.scattering_factors(energy=e)
        f1, f2, ok = ref(rows, e)
        n += 1
        if f2 != f2:
            if not (g2 != g2 and g1 != g1): nanmis += 1; print('outside not nan', el, e, g1, g2)
            continue
        if g2 != g2: nanmis += 1; print('inside nan f2', el, e); continue
        worst = max(worst, abs(g2-f2)/max(abs(f2),1e-30))
        if ok:
            if g1 != g1: nanmis+=1; print('f1 nan where defined', el, e, f1); continue
            worst = max(worst, abs(g1-f1)/max(abs(f1),1e-6))
print('points', n, 'skipped', skipped, 'worst rel', worst, 'nan mismatches', nanmis)
