import periodictable as pt
from periodictable import formula, mix_by_weight, mix_by_volume
def t(s):
    try:
        f = formula(s)
        print(repr(s), '->', f.structure, 'rho', f.density, 'tm', getattr(f,'total_mass',None), 'th', getattr(f,'thickness',None))
        return f
    except Exception as e:
        print(repr(s), 'RAISES', type(e).__name__, str(e)[:120])
for s in ["10wt% Fe // Ni", "10 wt% Fe // Ni", "10%wt Fe // Ni", "10% wt Fe // Ni", "10mass% Fe // Ni", "10%mass Fe // Ni", "10 weight% Fe // Ni", "10w% Fe // Ni","10m% Fe // Ni", "10wt%Fe//Ni",
          "10vol% Fe // Ni", "10%vol Fe // Ni", "10v% Fe // Ni", "10volume% Fe // Ni", "10wt% Fe // 20% Co // Ni", "10wt% Fe // 20wt% Co // Ni", "10wt% Fe // 20vol% Co // Ni","10wt% Fe // 95% Co // Ni", "10wt% Fe // 90% Co // Ni","100wt% Fe // Ni","0.5wt% Fe // Ni",
          "5g NaCl // 50mL H2O@1", "5 g NaCl // 50 mL H2O@1", "5kg NaCl // 50L H2O@1", "5mg NaCl // 50uL H2O@1", "5ug NaCl // 50nL H2O@1", "5ng NaCl // 50g H2O", "5g NaCl", "5g NaCl // 50mL H2O",
          "1 um Si // 5 nm Cr // 10 nm Au", "1um Si // 5nm Cr//10nm Au", "1cm Si // 1mm Fe", "1nm SiO2 // 1nm Fe", "1nm SiO2@2.2 // 1nm Fe",
          "(1nm Si // 2nm Fe)3 // 5nm Au", "(1nm Si // 2nm Fe)3", "(5g NaCl // 50g H2O)2 // 3g Fe", "(5g NaCl // 50g H2O)2",
          "20vol% (10 wt% NaCl@2.16 // H2O@1) // D2O@1n", "20vol% (10 wt% NaCl@2.16 // H2O@1)@1.07 // D2O@1n",
          "10wt% (5g NaCl // 50mL H2O@1) // Fe", "5g (10wt% Fe // Ni) // 3g Co", "1nm (50vol% Fe // Ni) // 2nm Au",
          "50 g (49 mL H2O@1 // 1 g NaCl) // 20 mL D2O@1n", "(10wt% Fe // Ni)", "(10wt% Fe // Ni)@5", "10wt% Fe // Ni @5", "10wt% Fe@7 // Ni@8",
          "1nm Fe // 1g Ni", "5g Fe // 1nm Ni", "10wt% Fe", "10wt% Fe // ", "wt% Fe // Ni", "10wt Fe // Ni", "10% Fe // Ni",
          ]:
    t(s)
