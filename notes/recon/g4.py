import random, math
import periodictable as pt
from periodictable import formula, mix_by_weight, mix_by_volume
from collections import Counter
rng = random.Random(3)
comps = ["H2O@1", "D2O@1n", "NaCl@2.16", "Fe", "Ni", "Au", "SiO2@2.2", "C3H4H[1]NO@1.3", "Fe{2+}O{2-}@5.7", "CaCO3", "U[235]", "Gd2O3@7.4", "3.2H2O@1n", "Co30Fe70@8"]
def key(a):
    from periodictable import core
    return (a.number, a.isotope if core.isisotope(a) else 0, a.charge)
res = Counter(); worst = 0; ex={}
for it in range(4000):
    n = rng.randint(1, 5)
    cs = [formula(rng.choice(comps)) for _ in range(n)]
    qs = [10**rng.uniform(-6, 6) if rng.random()>0.1 else 0.0 for _ in range(n)]
    mode = rng.choice(['w','v'])
    if mode == 'v' and any(c.density is None for c in cs): mode = 'w'
    args = [x for c,q in zip(cs,qs) for x in (c,q)]
    try:
        m = (mix_by_weight if mode=='w' else mix_by_volume)(*args)
    except Exception as e:
        res['exc:'+type(e).__name__]+=1; ex.setdefault(type(e).__name__, (args, str(e))); continue
    # expected composition per unit mass
    tot_q_mass = 0; exp = {}
    for c,q in zip(cs,qs):
        if q == 0: continue
        mass_q = q if mode=='w' else q*c.density    # mass contributed (arbitrary units)
        tot_q_mass += mass_q
        for a,cnt in c.atoms.items():
            exp[key(a)] = exp.get(key(a),0) + mass_q/c.mass*cnt
    got = {key(a): cnt for a,cnt in m.atoms.items()}
    if not exp:
        res['empty-ok' if not got else 'empty-BAD']+=1; continue
    M = m.mass
    err = max(abs(got.get(k,0)/M - v/tot_q_mass)/(v/tot_q_mass) for k,v in exp.items())
    if set(got) != set(exp): res['keys-BAD']+=1
    worst = max(worst, err)
    res['comp-ok' if err < 1e-12 else 'comp-BAD']+=1
    if err >= 1e-12: ex.setdefault('comp', (args, err))
    # density
    if all(c.density for c,q in zip(cs,qs) if q>0):
        if mode=='w': dexp = sum(q for q in qs)/sum(q/c.density for c,q in zip(cs,qs) if q>0)
        else: dexp = sum(q*c.density for c,q in zip(cs,qs))/sum(qs)
        derr = abs(m.density-dexp)/dexp
        res['dens-ok' if derr<1e-12 else 'dens-BAD']+=1
        if derr >= 1e-12: ex.setdefault('dens', (args, m.density, dexp))
    else:
        res['dens-none-ok' if m.density is None else 'dens-none-BAD']+=1
print(res, worst); print(ex)
