"""Prototype: fork-tree exploration of first-touch histories (C09)."""
import os, sys, pickle, hashlib, json, time, traceback
import numpy as np
import periodictable as pt
from periodictable import core
el = pt.elements

GROUPS = {
 'covrad': ['covalent_radius','covalent_radius_units','covalent_radius_uncertainty'],
 'crystal': ['crystal_structure'],
 'neutron': ['neutron'],
 'activation': ['neutron_activation'],
 'xray': ['xray'],
 'emission': ['K_alpha','K_beta1','K_alpha_units','K_beta1_units'],
 'magff': ['magnetic_ff'],
}
def abstract_state():
    st = []
    for cls in (core.Element, core.Isotope, core.Ion):
        for g, props in GROUPS.items():
            for p in props:
                v = cls.__dict__.get(p, '<absent>')
                k = 'absent' if v == '<absent>' else ('pending' if isinstance(v, property) and v.fget.__name__ == 'getfn' else ('prop' if isinstance(v, property) else 'data'))
                st.append(k[0:2])
    st.append(tuple(sorted(set(el.properties))))
    return tuple(st)

def norm(v):
    if isinstance(v, np.ndarray): return ('nd', v.shape, hashlib.md5(np.nan_to_num(v, nan=-777.).tobytes()).hexdigest())
    if isinstance(v, (list, tuple)): return tuple(norm(x) for x in v)
    if isinstance(v, dict): return tuple(sorted((str(k), norm(x)) for k, x in v.items()))
    if isinstance(v, (float, np.floating)):
        return 'nan' if v != v else float(v)
    if isinstance(v, (complex, np.complexfloating)): return ('c', repr(complex(v)))
    if isinstance(v, (int, str, bool, type(None))): return v
    if hasattr(v, '__dict__'): return (type(v).__name__, norm({k: x for k, x in vars(v).items() if k not in ('element',)}))
    return repr(v)
def safe(fn):
    try: return norm(fn())
    except Exception as e: return ('EXC', type(e).__name__, str(e)[:80])

Fe, Fe56, Fe2, Fe562, H, D, Cu, U = el.Fe, el.Fe[56], el.Fe.ion[2], el.Fe[56].ion[2], el.H, el.D, el.Cu, el.U
EVENTS = {}
def ev(name):
    def deco(fn): EVENTS[name] = fn; return fn
    return deco
objs = {'el': lambda: el.Fe, 'iso': lambda: el.Fe[58], 'ion': lambda: el.Fe.ion[2], 'isoion': lambda: el.Fe[58].ion[2]}
reads = {
 'covrad': lambda o: o.covalent_radius, 'covrad_u': lambda o: o.covalent_radius_uncertainty, 'covrad_units': lambda o: o.covalent_radius_units,
 'crystal': lambda o: o.crystal_structure,
 'neutron': lambda o: (o.neutron.b_c, o.neutron.total, o.neutron.absorption, o.neutron.has_sld()),
 'activation': lambda o: [vars(r) for r in o.neutron_activation],
 'xray': lambda o: o.xray.scattering_factors(energy=8.0),
 'f0': lambda o: o.xray.f0(0.5),
 'K_alpha': lambda o: o.K_alpha, 'K_beta1': lambda o: o.K_beta1, 'K_alpha_units': lambda o: o.K_alpha_units, 'K_beta1_units': lambda o: o.K_beta1_units,
 'magff': lambda o: vars(o.magnetic_ff[2]),
}
for rn, rf in reads.items():
    for on, of in objs.items():
        EVENTS['read:%s:%s'%(rn,on)] = (lambda rf=rf, of=of: rf(of()))
attr_of = {'covrad':'covalent_radius','crystal':'crystal_structure','neutron':'neutron','activation':'neutron_activation','xray':'xray','K_alpha':'K_alpha','K_alpha_units':'K_alpha_units','magff':'magnetic_ff'}
for rn, an in attr_of.items():
    for on, of in objs.items():
        EVENTS['hasattr:%s:%s'%(rn,on)] = (lambda an=an, of=of: hasattr(of(), an))
        EVENTS['getattr_d:%s:%s'%(rn,on)] = (lambda an=an, of=of: getattr(of(), an, 'DEFAULT') is not 'DEFAULT')
# hasattr on an element that has no data for the group
EVENTS['hasattr:K_alpha:H'] = lambda: hasattr(el.H, 'K_alpha')
EVENTS['hasattr:magff:H'] = lambda: hasattr(el.H, 'magnetic_ff')
EVENTS['hasattr:crystal:Og'] = lambda: hasattr(el.Og, 'crystal_structure')
EVENTS['hasattr:activation:el'] = lambda: hasattr(el.Fe, 'neutron_activation')
# calculators
EVENTS['calc:neutron_sld'] = lambda: pt.neutron_sld('Fe2O3', density=5.2, wavelength=4.75)
EVENTS['calc:neutron_sld_D2O'] = lambda: pt.neutron_sld('D2O', density=1.1, wavelength=4.75)
EVENTS['calc:xray_sld'] = lambda: pt.xray_sld('Fe2O3', density=5.2, energy=8.0)
EVENTS['calc:volume'] = lambda: pt.formula('Fe2O3').volume()
def _act():
    from periodictable import activation as A
    s = A.Sample('Co30Fe70', 10); s.calculate_activation(A.ActivationEnvironment(1e5, 70, 50), exposure=10, rest_times=[0,1])
    return sorted((a.isotope, a.daughter, v) for a, v in s.activity.items())
EVENTS['calc:activation'] = _act
EVENTS['calc:formula'] = lambda: str(pt.formula('Fe2O3'))

for mod in ['nsf','xsf','covalent_radius','crystal_structure','magnetic_ff','activation','fasta','formulas','cromermann']:
    EVENTS['import:'+mod] = (lambda mod=mod: __import__('periodictable.'+mod) and None)
def _init(mod, fn='init', **kw):
    def f():
        m = __import__('periodictable.'+mod, fromlist=['x']); getattr(m, fn)(el, **kw)
    return f
for mod in ['nsf','xsf','covalent_radius','crystal_structure','magnetic_ff','activation']:
    EVENTS['init:'+mod] = _init(mod)
    EVENTS['reinit:'+mod] = _init(mod, reload=True)
EVENTS['init:emission'] = _init('xsf', 'init_spectral_lines')

def digest():
    d = {}
    for e in el:
        atoms = [e] + list(e) 
        for a in atoms:
            k = repr(a)
            d[k+'.n'] = safe(lambda: vars(a.neutron) if 'neutron' in a.__dict__ or isinstance(a, core.Element) else ('inherit',))
            if isinstance(a, core.Isotope):
                d[k+'.act'] = safe(lambda: [vars(r) for r in a.__dict__.get('neutron_activation', [])])
                d[k+'.act_has'] = safe(lambda: hasattr(a, 'neutron_activation'))
        d[e.symbol+'.cr'] = safe(lambda: (e.covalent_radius, e.covalent_radius_uncertainty, e.covalent_radius_units))
        d[e.symbol+'.xs'] = safe(lambda: e.crystal_structure)
        d[e.symbol+'.K'] = safe(lambda: (e.K_alpha, e.K_beta1))
        d[e.symbol+'.Ku'] = safe(lambda: (e.K_alpha_units, e.K_beta1_units))
        d[e.symbol+'.mff'] = safe(lambda: {q: vars(f) for q, f in e.magnetic_ff.items()})
        d[e.symbol+'.xr'] = safe(lambda: e.xray.scattering_factors(energy=8.0))
        d[e.symbol+'.xrsld'] = safe(lambda: e.xray.sld(energy=8.0))
        for q in e.ions[:2]:
            d[e.symbol+'.ionxr%d'%q] = safe(lambda: e.ion[q].xray.scattering_factors(energy=8.0))
    for name in ['calc:neutron_sld','calc:neutron_sld_D2O','calc:xray_sld','calc:volume','calc:activation']:
        d[name] = safe(EVENTS[name])
    return d

def run_child(fn):
    """fork; run fn in child; return its pickled result"""
    r, w = os.pipe()
    pid = os.fork()
    if pid == 0:
        os.close(r)
        try: res = ('ok', fn())
        except BaseException as e: res = ('err', traceback.format_exc())
        with os.fdopen(w, 'wb') as f: pickle.dump(res, f)
        os._exit(0)
    os.close(w)
    with os.fdopen(r, 'rb') as f: res = pickle.load(f)
    os.waitpid(pid, 0)
    return res

def explore(history, seen, graph, maxdepth):
    """Runs in a process whose interpreter state == after `history`. DFS with fork."""
    s = abstract_state()
    for name, fn in EVENTS.items():
        def step():
            val = safe(fn)
            s2 = abstract_state()
            return val, s2
        status, out = run_child(step)
        if status != 'ok': print('child error', name, out); continue
        val, s2 = out
        graph.setdefault(s, {})[name] = (val, s2)

def expand_task(hist):
    def expand(hist=hist):
        for h in hist: safe(EVENTS[h])
        s = abstract_state()
        out = {}
        for name, fn in EVENTS.items():
            def step(fn=fn):
                val = safe(fn); s2 = abstract_state()
                return val, s2
            out[name] = run_child(step)[1]
        return s, out
    return hist, run_child(expand)
def fin_task(args):
    hist, cdig = args
    def fin(hist=hist):
        for h in hist: safe(EVENTS[h])
        d = digest()
        diff = [k for k in cdig if d.get(k) != cdig[k]]
        return diff[:6], len(diff)
    return hist, run_child(fin)
if __name__ == '__main__':
    import pyparsing, multiprocessing as mp
    from concurrent.futures import ProcessPoolExecutor, wait, FIRST_COMPLETED
    t0 = time.time()
    def canon():
        for g in ['covrad','crystal','neutron','activation','xray','K_alpha','magff']:
            try: EVENTS['read:%s:%s'%(g, 'iso' if g=='activation' else 'el')]()
            except Exception as e: print('canon exc', g, e)
        vals = {n: safe(f) for n, f in EVENTS.items() if n.startswith(('read:','hasattr:','getattr_d:','calc:'))}
        return vals, digest(), abstract_state()
    status, (cvals, cdig, cstate) = run_child(canon)
    print('canonical', status, len(cvals), len(cdig), '%.1fs'%(time.time()-t0), flush=True)
    seen = {abstract_state(): ()}; viol = {}; ntrans = 0
    ex = ProcessPoolExecutor(15, mp_context=mp.get_context('fork'))
    pending = {ex.submit(expand_task, ())}
    nexp = 0
    while pending:
        done, pending = wait(pending, return_when=FIRST_COMPLETED)
        for fut in done:
            hist, (status, res) = fut.result(); nexp += 1
            if status != 'ok': print('ERR', res); continue
            s, out = res
            for name, (val, s2) in out.items():
                ntrans += 1
                if name in cvals and val != cvals[name]:
                    viol.setdefault((name, str(val)[:100]), hist+(name,))
                if s2 not in seen:
                    seen[s2] = hist+(name,); pending.add(ex.submit(expand_task, hist+(name,)))
        if nexp % 20 == 0: print('expanded', nexp, 'seen', len(seen), 'pending', len(pending), '%.1fs'%(time.time()-t0), flush=True)
    import collections
    dims = collections.defaultdict(set)
    for st in seen:
        for i, v in enumerate(st): dims[i].add(v)
    names = [(c,p) for c in ('E','I','N') for g,ps in GROUPS.items() for p in ps] + ['props']
    for i, vs in dims.items(): print('DIM', names[i], len(vs), sorted(vs, key=str)[:6])
    print('states', len(seen), 'transitions', ntrans, '%.1fs'%(time.time()-t0), flush=True)
    for k, h in sorted(viol.items(), key=lambda x: len(x[1])): print('EVENT-VIOLATION', k, 'after', h)
    bad = 0
    for hist, (status, (diff, n)) in ex.map(fin_task, [(h, cdig) for h in seen.values()]):
        if n: bad += 1; print('DIGEST-DIFF', hist, n, diff[:4])
    print('digest-bad states', bad, 'of', len(seen), '%.1fs'%(time.time()-t0), flush=True)
