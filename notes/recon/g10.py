"""C12 / C19 / C02 oracle prototypes."""
import random, math, sys, copy
sys.path.insert(0,'/verif/notes/recon')
import numpy as np
import periodictable as pt
from periodictable import formula, core
from periodictable.constants import electron_mass, avogadro_number
from collections import Counter
from g1 import gen_compound, key, el
rng = random.Random(12)
def atom_of(k, table=el):
    Z,A,q = k; a = table[Z]
    if A: a = a[A]
    if q: a = a.ion[q]
    return a
def mass_of(k):
    Z,A,q = k; base = el[Z][A] if A else el[Z]
    return base.mass - q*electron_mass
def nat(k): return (k[0], 0, k[2])
res = Counter(); ex = {}
def rec(kind, ok, info=None):
    res[(kind, 'ok' if ok else 'BAD')] += 1
    if not ok: ex.setdefault(kind, []).append(info)
for it in range(3000):
    s, d = gen_compound(rng, 0, rng.choice([0,1,2]))
    try: f = formula(s)
    except TypeError: continue   # D2
    atoms = {key(a): c for a,c in f.atoms.items()}
    M = sum(c*mass_of(k) for k,c in atoms.items()); Mn = sum(c*mass_of(nat(k)) for k,c in atoms.items())
    has_isoion = any(k[1] and k[2] for k in atoms); has_ion = any(k[2] for k in atoms)
    cls = 'isoion' if has_isoion else ('ion' if has_ion else 'plain')
    # ---- C12 natural density
    rho = 10**rng.uniform(-2, 1.3)
    g = formula(s, natural_density=rho)
    rec('nd-kw:'+cls, abs(g.density - rho*M/Mn) <= 1e-12*g.density, (s, g.density, rho*M/Mn))
    g = formula(s, density=rho); rec('nd-get:'+cls, abs(g.natural_density - rho*Mn/M) <= 1e-12*rho, (s,))
    g = formula(s); g.natural_density = rho; rec('nd-set-inv', abs(g.natural_density - rho) <= 1e-12*rho, (s,))
    g = formula(s+'@%.4fn'%rho); rec('nd-tag:'+cls, abs(g.density - float('%.4f'%rho)*M/Mn) <= 1e-12*g.density, (s,))
    # ---- replace
    ks = list(atoms)
    src = rng.choice(ks); tgt = rng.choice(ks + [(1,2,0), (8,18,0), (26,0,2)])
    if src != tgt:
        portion = rng.choice([0, 1, rng.random()])
        for dens in (None, rho):
            g = formula(s, density=dens) if dens else formula(s)
            if g.density is None and len(atoms) == 1: pass
            try:
                h = g.replace(atom_of(src), atom_of(tgt), portion)
            except TypeError as e:
                rec('replace-exc-nodensity' if g.density is None else 'replace-exc', False, (s, src, tgt, str(e)[:40])); continue
            ha = {key(a): c for a,c in h.atoms.items()}
            exp = dict(atoms); n = exp.pop(src); exp[tgt] = exp.get(tgt,0) + n*portion
            if portion != 1: exp[src] = exp.get(src,0) + n*(1-portion)
            ok = all(abs(ha.get(k,0)-v) <= 1e-12*max(1,abs(v)) for k,v in exp.items()) and all(k in exp or v == 0 for k,v in ha.items())
            rec('replace-counts', ok, (s, src, tgt, portion, ha, exp))
            if g.density is not None:
                M2 = sum(c*mass_of(k) for k,c in exp.items())
                rec('replace-density', abs(h.density - g.density*M2/M) <= 1e-11*h.density, (s, src, tgt, portion, h.density, g.density*M2/M))
            else: rec('replace-density-none', h.density is None, (s,))
    # ---- C19 hill
    h = f.hill
    ha = {key(a): c for a,c in h.atoms.items()}
    rec('hill-atoms', ha == atoms, (s,))
    order = [ (0 if a.symbol=='C' else 1 if a.symbol=='H' else 2, a.symbol, a.isotope if core.isisotope(a) else 0) for c,a in h.structure]
    rec('hill-order', order == sorted(order), (s, order))
    rec('hill-idem', h.hill == h, (s,))
    # canonical under permutation: rebuild from dict in shuffled order
    items = list(f.atoms.items()); rng.shuffle(items)
    h2 = formula(dict(items)).hill
    samekeys = len({(k[0],k[1]) for k in atoms}) == len(atoms)
    rec('hill-canon:' + ('uniq' if samekeys else 'multi-charge'), h2 == h, (s,))
    # parsed from own hill string equals hill
    hs = str(h)
    try:
        p = formula(hs); rec('hill-parse-eq', p == h or 'e+' in hs or 'e-' in hs or 'D[' in hs or 'T[' in hs, (s, hs, type(p.structure), type(h.structure)))
    except Exception as e: rec('hill-parse-exc', 'e+' in hs or 'e-' in hs or 'D[' in hs or 'T[' in hs, (hs, str(e)[:40]))
    # ---- volume
    try:
        V = f.volume('bcc'); Vexp = 4*math.pi/3*sum(c*atom_of((k[0],0,0)).covalent_radius**3 for k,c in atoms.items())/(math.pi*math.sqrt(3)/8)*1e-24
        rec('volume', abs(V-Vexp) <= 1e-12*Vexp, (s,))
    except TypeError: res[('volume-noradius','n/a')] += 1
a,b,c = 3.1, 4.2, 5.3; al, be, ga = 80., 95., 110.
V = formula('Fe').volume(a=a,b=b,c=c,alpha=al,beta=be,gamma=ga); ca,cb,cg = [math.cos(math.radians(x)) for x in (al,be,ga)]
print('cell', V, a*b*c*math.sqrt(1-ca*ca-cb*cb-cg*cg+2*ca*cb*cg)*1e-24)
for k in sorted(res, key=str): print(k, res[k])
for k, v in ex.items(): print(k, str(v[:2])[:500])
