import sys; sys.path.insert(0,'/verif/.deps')
exec(open('/verif/notes/recon/p11.py').read().split("import itertools")[0])
from math import log
import random
random.seed(3)
cases = Counter(); ex = {}
def lvl(err): return 'ok<1e-9' if err<1e-9 else ('1e-9..1e-6' if err<1e-6 else ('1e-6..1e-2' if err<1e-2 else '>1e-2'))
sel = [(i,r) for i,r in rows if r.reaction in ('b','2n')]
for trial in range(400):
    fluence = 10**random.uniform(2,16); exposure = 10**random.uniform(-3,4); cd = random.choice([0,1,20,70]); fr = random.choice([0,50])
    env = A.ActivationEnvironment(fluence=fluence, Cd_ratio=cd, fast_ratio=fr)
    for iso, r in sel:
        if r.fast and fr == 0: continue
        try: res = A.activity(iso, 1.0, env, exposure, [0])
        except Exception as e:
            cases[(r.reaction, type(e).__name__)] += 1; continue
        g = res[r][0]; w = ref(iso, r, 1.0, env, exposure, [0])[0]
        if abs(w) < 1e-300: 
            cases[(r.reaction,'tiny')] += 1; continue
        err = float(abs((mp.mpf(g)-w)/w))
        lam = log(2)/r.Thalf_hrs; lp = log(2)/r.Thalf_parent
        k = (r.reaction, lvl(err), 'neg' if g<0 else 'pos')
        cases[k] += 1
        if k not in ex or err > ex[k][0]: ex[k] = (err, str(iso), r.daughter, '%.3g'%fluence, '%.3g'%exposure, cd, 'lam*t=%.2g'%(lam*exposure), 'lp*t=%.2g'%(lp*exposure), g, float(w))
for k in sorted(cases): print(k, cases[k])
for k,v in sorted(ex.items()): print(k, v)
