import random, numpy as np
import periodictable as pt
from periodictable import formula
from periodictable.nsf import neutron_composite_sld, neutron_sld, D2O_sld, D2O_match
rng = random.Random(2)
atoms = [a for e in pt.elements for a in [e]+list(e) if a.neutron.has_sld()]
def mat():
    return formula({rng.choice(atoms): rng.choice([1,2,3,0.5, 10**rng.uniform(-2,2)]) for _ in range(rng.randint(1,4))})
worst = 0; n = 0; shape_bad = 0; inc_abs = 0
for it in range(1500):
    mats = [mat() for _ in range(rng.randint(1,5))]
    if rng.random()<0.2: mats.append(mats[0])
    wl = rng.choice([10**rng.uniform(-1.3,1.7), np.array([10**rng.uniform(-1.3,1.7)]), np.array([10**rng.uniform(-1.3,1.7) for _ in range(rng.randint(2,5))])])
    w = np.array([rng.choice([0.0, 1.0, 10**rng.uniform(-6,6)]) for _ in mats])
    rho = rng.choice([0.0, 10**rng.uniform(-3,1.4)])
    got = neutron_composite_sld(mats, wavelength=wl)(w, density=rho)
    tot = formula()
    for wi, m in zip(w, mats): tot += wi*m
    want = neutron_sld(tot, density=rho, wavelength=wl)
    n += 1
    if w.sum() == 0 or rho == 0:
        assert all(np.all(np.asarray(g) == 0) for g in got) and all(np.all(np.asarray(x) == 0) for x in want); continue
    for i,(g,x) in enumerate(zip(got, want)):
        if np.shape(g) != np.shape(wl) or np.shape(x) != np.shape(wl): shape_bad += 1
        g = np.asarray(g, float); x = np.asarray(x, float)
        scale = np.abs(np.asarray(want[0],float)) + np.abs(np.asarray(want[1],float))
        d = np.abs(g-x)
        if i == 2:
            inc_abs = max(inc_abs, float(np.max(d/np.maximum(scale,1e-300))))
            d = np.where(d <= 1e-7*scale, 0, d)
        worst = max(worst, float(np.max(d/np.maximum(np.abs(x),1e-300))))
print('C17 cases', n, 'worst rel', worst, 'shape mismatches', shape_bad, 'max inc abs/scale', inc_abs)
# C16
H, D, H1 = pt.H, pt.D, pt.H[1]
worst = 0; wm = 0
for it in range(600):
    comp = {}
    for _ in range(rng.randint(1,5)):
        a = rng.choice([pt.C, pt.N, pt.O, pt.S, pt.P, H, D, pt.Na, pt.C[13]]); comp[a] = comp.get(a,0)+rng.randint(1,30)
    nl = rng.choice([0,0,1,3,10]); 
    if nl: comp[H1] = nl
    mol = formula(comp, natural_density=10**rng.uniform(-0.3,0.5))
    d = rng.random(); wl = 10**rng.uniform(-0.5,1.3)
    got = D2O_sld(mol, volume_fraction=1, D2O_fraction=d, wavelength=wl)
    atoms2 = dict(mol.atoms); m0 = mol.mass
    if nl:
        del atoms2[H1]; atoms2[D] = atoms2.get(D,0)+nl*d; atoms2[H] = atoms2.get(H,0)+nl*(1-d)
    sub = formula(atoms2); sub.density = mol.density*sub.mass/m0
    want = neutron_sld(sub, wavelength=wl)
    for g,x in zip(got[:2], want[:2]): worst = max(worst, abs(g-x)/max(abs(x),1e-12))
    ds, sld = D2O_match(mol, wavelength=wl)
    vals = [D2O_sld(mol, volume_fraction=v, D2O_fraction=ds, wavelength=wl)[0] for v in (0,0.5,1)]
    wm = max(wm, (max(vals)-min(vals))/max(1e-6, abs(sld)), abs(vals[2]-sld)/max(1e-6,abs(sld)))
print('C16 worst', worst, 'match spread', wm)
