import pickle, copy
import periodictable as pt
from periodictable import core
el = pt.elements
# identity
print(el[26] is el.Fe is el.symbol('Fe') is el.name('iron') is el.isotope('Fe') is pt.Fe is pt.iron)
print(el.Fe[56] is el.isotope('56-Fe'), el.Fe.ion[2] is el.Fe.ion[2], el.Fe[56].ion[2] is el.Fe[56].ion[2])
print(pickle.loads(pickle.dumps(el.Fe)) is el.Fe, copy.deepcopy(el.Fe[56].ion[2]) is el.Fe[56].ion[2], copy.copy(el.Fe) is el.Fe)
print(pickle.loads(pickle.dumps(el.D)) is el.D, el.H[2] is el.D, el.isotope('D') is el.D, el.isotope('2-H') is el.D, el.name('deuterium') is el.D)
for bad in ['2-D','Fe-56','56-Fe-2','x-Fe','-Fe','56-','0-Fe','056-Fe',' 56-Fe','56 -Fe', '56-fe', 'properties','list','_element','D','n','1-n']:
    try: print(repr(bad), '->', repr(el.isotope(bad)))
    except Exception as e: print(repr(bad), 'RAISES', type(e).__name__, e)
for bad in ['properties','list','symbol','name','isotope','fe','FE','__class__','__dict__', 'D', 'T', 'n']:
    try: print('symbol', repr(bad), '->', repr(el.symbol(bad)))
    except Exception as e: print('symbol', repr(bad), 'RAISES', type(e).__name__, e)
for bad in ['Iron','IRON','fe','neutron','deuterium','tritium','']:
    try: print('name', repr(bad), '->', repr(el.name(bad)))
    except Exception as e: print('name', repr(bad), 'RAISES', type(e).__name__, e)
try: print(el[119])
except Exception as e: print('el[119]', type(e).__name__, e)
try: print(el[-1])
except Exception as e: print('el[-1]', type(e).__name__, e)
try: print(el['Fe'])
except Exception as e: print("el['Fe']", type(e).__name__, e)
try: print(el.Fe[1])
except Exception as e: print("Fe[1]", type(e).__name__, e)
try: print(el.Fe.ion[0])
except Exception as e: print("Fe.ion[0]", type(e).__name__, e)
try: print(repr(el.Fe.ion[2.0]), el.Fe.ion[2.0] is el.Fe.ion[2], el.Fe.ion[True])
except Exception as e: print("Fe.ion[2.0]", type(e).__name__, e)
print(el[26.0] is el.Fe, el.Fe[56.0] is el.Fe[56])
# iteration
zs = [e.number for e in el]; print(zs == sorted(zs), len(zs), len(set(zs)))
print(sum(len(e.isotopes) for e in el), sum(len(e.ions) for e in el), sum(len(e.ions)*len(e.isotopes) for e in el))
# Ion of an isotope: ions list
print(el.Fe[56].ions, el.D.ions, el.D.ion[1], repr(el.D.ion[1]), el.D.ion[1].charge, el.D.ion[1].isotope, el.D.ion[1].number)
# change_table
T = core.PeriodicTable("t1")
from periodictable import mass, density
mass.init(T); density.init(T)
for a in [el.Fe, el.Fe[56], el.Fe.ion[2], el.Fe[56].ion[2], el.D, el.D.ion[1], el[0]]:
    b = core.change_table(a, T)
    print(repr(a), repr(b), b is not a, b.number==a.number, getattr(b,'isotope',None)==getattr(a,'isotope',None), b.charge==a.charge, pickle.loads(pickle.dumps(b)) is b)
print(T.Fe.table, el.Fe.table, T.Fe[56].table, T.Fe.ion[2].table)
# Ion of ion?
try: print(el.Fe.ion[2].ion[3])
except Exception as e: print("ion.ion", type(e).__name__, e)
print(el.Fe.ion[2][56])
