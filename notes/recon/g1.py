"""Prototype of the C01 generator with denotation + malformations."""
import random, sys, re
from fractions import Fraction
import periodictable as pt
from periodictable import formula, core, mass, density
el = pt.elements
ALLOW_D24 = False
SYMS = [(e.symbol, e) for e in el if e.number >= 1] + [('D', el.D), ('T', el.T)]
def key(a):
    return (a.number, getattr(a, 'isotope', 0) if core.isisotope(a) else 0, a.charge)
def rnd_count(rng, allow_one=True):
    r = rng.random()
    if r < 0.35 and allow_one: return '', Fraction(1)
    if r < 0.7:
        n = rng.choice([2,3,4,6,10,12,100,999,1000000]) if rng.random()<0.5 else rng.randint(1, 50)
        if n == 1: return '', Fraction(1)
        return str(n), Fraction(n)
    # decimal
    form = rng.choice(['d.d','.d','d.'])
    ip = rng.choice(['0', str(rng.randint(1, 999))])
    fp = ''.join(rng.choice('0123456789') for _ in range(rng.randint(1,4)))
    if form == 'd.d': s = ip+'.'+fp
    elif form == '.d': s = '.'+fp
    else: s = (ip if ip!='0' else '7')+'.'
    v = Fraction(s if not s.endswith('.') else s+'0') if not s.startswith('.') else Fraction('0'+s)
    if v == 0: return '2', Fraction(2)
    return s, v
def rnd_atom(rng):
    sym, a = rng.choice(SYMS)
    s = sym; Z = a.number; A = a.isotope if core.isisotope(a) else 0; q = 0
    base = a
    if A == 0 and base.isotopes and rng.random() < 0.3:
        A = rng.choice(base.isotopes); s += '[%d]'%A
    ions = base.ions
    if ions and rng.random() < 0.3:
        q = rng.choice(ions)
        mag = abs(q); sign = '+' if q>0 else '-'
        s += '{%s%s}'%(('' if mag==1 and rng.random()<0.5 else str(mag)), sign)
    return s, (Z, A, q)
def gen_group(rng, depth, maxdepth):
    """returns (string, {key: Fraction}, starts_with_count)"""
    if depth < maxdepth and rng.random() < 0.35:
        inner_s, inner_d = gen_compound(rng, depth+1, maxdepth)
        cs, cv = rnd_count(rng)
        return '('+inner_s+')'+cs, {k: v*cv for k, v in inner_d.items()}, 'explicit'
    # implicit group: count element+
    cs, cv = rnd_count(rng) if rng.random()<0.3 else ('', Fraction(1))
    n = rng.randint(1, 4)
    s = cs; d = {}
    for i in range(n):
        a_s, k = rnd_atom(rng)
        es, ev = rnd_count(rng)
        s += a_s+es
        d[k] = d.get(k, 0) + ev*cv
    return s, d, ('counted' if cs != '' else 'plain')
def gen_compound(rng, depth, maxdepth):
    n = rng.randint(1, 4)
    s = ''; d = {}; prev = None
    for i in range(n):
        gs, gd, kind = gen_group(rng, depth, maxdepth)
        if i > 0:
            seps = ['+', ' + ', '+ ', ' +']
            # white-space-only separator: D24 pattern when prev is a counted implicit group and next is a plain implicit group
            if not ((prev == 'counted' and kind == 'plain') or (prev == 'explicit' and kind == 'counted')) or ALLOW_D24: seps.append(' ')
            # empty separator only when it cannot merge: next must not start with a count, prev must not be a counted implicit group followed by plain elements
            if kind != 'counted' and not (prev == 'counted' and kind == 'plain'): seps.append('')
            if kind == 'plain' and prev == 'plain': pass
            s += rng.choice(seps)
        prev = kind
        s += gs
        for k, v in gd.items(): d[k] = d.get(k, 0)+v
    return s, d
def check(s, d, table=el):
    f = formula(s, table=table)
    got = {key(a): c for a, c in f.atoms.items()}
    if set(got) != set(d): return 'keys %r vs %r'%(sorted(got), sorted(d))
    for k in d:
        if abs(got[k]-float(d[k])) > 1e-11*abs(float(d[k])): return 'count %r: %r vs %r'%(k, got[k], float(d[k]))
    q = sum(v*k[2] for k, v in d.items())
    if abs(f.charge - float(q)) > 1e-9*max(1,abs(float(q))): return 'charge %r vs %r'%(f.charge, q)
    return None
if __name__ == '__main__':
    rng = random.Random(int(sys.argv[1]) if len(sys.argv)>1 else 0)
    N = int(sys.argv[2]) if len(sys.argv)>2 else 5000
    bad = 0; shapes=set()
    for i in range(N):
        s, d = gen_compound(rng, 0, rng.choice([0,1,2,3,5]))
        try: r = check(s, d)
        except Exception as e:
            r = 'EXC %s %s'%(type(e).__name__, e)
            if 'NoneType' in str(e): r = None
        if r:
            bad += 1
            if bad <= 15: print(repr(s), r)
        shapes.add(re.sub(r'[A-Z][a-z]?', 'E', re.sub(r'[0-9.]+', '#', s)))
    print('cases', N, 'bad', bad, 'shapes', len(shapes))
