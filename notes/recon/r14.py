"""C14 relation monitors + Sample additivity prototype (pinned tree)."""
import random, math
import periodictable as pt
from periodictable import activation as A, formula, core
from collections import Counter
rng = random.Random(14)
rows = [(iso, r) for el in pt.elements for iso in el for r in getattr(iso, 'neutron_activation', [])]
res = Counter(); ex = {}
def rec(k, ok, info=None):
    res[(k, 'ok' if ok else 'BAD')] += 1
    if not ok: ex.setdefault(k, []).append(info)
LN2 = math.log(2)
for it in range(400):
    fluence = 10**rng.uniform(2,16); exposure = 10**rng.uniform(-3,4); cd = rng.choice([0,0.5,1,20,70]); fr = rng.choice([0,50])
    env = A.ActivationEnvironment(fluence=fluence, Cd_ratio=cd, fast_ratio=fr)
    iso = rng.choice(rows)[0]
    m = 10**rng.uniform(-6,3); k = 10**rng.uniform(-2,2); rest = [0, 10**rng.uniform(-2,5)]
    try:
        a1 = A.activity(iso, m, env, exposure, rest); a2 = A.activity(iso, m*k, env, exposure, rest)
        t2 = exposure*(1+rng.random()); a3 = A.activity(iso, m, env, t2, rest)
    except Exception as e:
        rec('exc:'+type(e).__name__, False, (str(iso), fluence, exposure)); continue
    for r, v in a1.items():
        rec('fast-omitted', not (r.fast and fr == 0), None)
        rec('nonneg:'+('2n' if r.reaction=='2n' else 'other'), all(x >= 0 for x in v), (str(iso), r.daughter, v))
        if v[0] > 1e-290:
            rec('mass-prop', abs(a2[r][0] - k*v[0]) <= 1e-12*abs(k*v[0]), (str(iso), r.daughter, a2[r][0], k*v[0]))
            lam = LN2/r.Thalf_hrs; expd = v[0]*math.exp(-lam*rest[1])
            rec('rest-decay', abs(v[1]-expd) <= 1e-12*max(expd, 1e-300) or expd < 1e-300, (str(iso), r.daughter, v[1], expd))
            erf = 1/cd if cd >= 1 else 0
            flux = fluence/fr if r.fast else fluence
            k1 = flux*(r.thermalXS + erf*r.resonance)*3600e-24
            lo = v[0]*math.exp(-k1*(t2-exposure))
            rec('exposure-bound:'+('2n' if r.reaction=='2n' else 'other'), a3[r][0] >= lo*(1-1e-9), (str(iso), r.daughter, r.reaction, fluence, exposure, t2, a3[r][0], lo))
# Sample additivity
for it in range(150):
    env = A.ActivationEnvironment(fluence=10**rng.uniform(3,14), Cd_ratio=rng.choice([0,70]), fast_ratio=rng.choice([0,50]))
    syms = [e for e in pt.elements if 1 <= e.number <= 92]
    comp = {}
    for _ in range(rng.randint(1,3)):
        e = rng.choice(syms); a = e[rng.choice(e.isotopes)] if rng.random()<0.3 else e
        comp[a] = comp.get(a,0)+rng.randint(1,5)
    try: f = formula(comp)
    except TypeError: continue
    mass = 10**rng.uniform(-3,2); exposure = 10**rng.uniform(-2,3); rest = [0, 1, 24]
    s = A.Sample(f, mass)
    try: s.calculate_activation(env, exposure=exposure, rest_times=rest)
    except Exception as e: rec('sample-exc:'+type(e).__name__, False, (str(f),)); continue
    exp = {}
    M = f.mass
    for a, cnt in f.atoms.items():
        frac = cnt*a.mass/M
        isos = [(a, 1.0)] if core.isisotope(a) else [(a[i], a[i].abundance/100) for i in a.isotopes]
        for iso, ab in isos:
            if ab == 0: continue
            for r, v in A.activity(iso, mass*frac*ab, env, exposure, rest).items():
                exp[r] = [x+y for x,y in zip(exp.get(r,[0]*len(rest)), v)]
    rec('sample-keys', set(exp) == set(s.activity), None)
    rec('sample-values', all(all(abs(x-y) <= 1e-12*max(abs(y),1e-300) for x,y in zip(s.activity[r], exp[r])) for r in exp if r in s.activity), (str(f),))
for k in sorted(res, key=str): print(k, res[k])
for k, v in ex.items(): print(k, str(v[:2])[:400])
