import sys; sys.path.insert(0,'/verif/.deps')
exec(open('/verif/notes/recon/p11.py').read().split("import itertools")[0])
import random
random.seed(4)
sel = [(i,r) for i,r in rows if r.reaction == '2n']
def kappa(iso, ai, env, exposure):
    f = mp.mpf
    erf = f(1)/f(env.Cd_ratio) if env.Cd_ratio >= 1 else f(0)
    initialXS = f(ai.thermalXS) + erf*f(ai.resonance)
    flux = f(env.fluence)/f(env.fast_ratio) if ai.fast else f(env.fluence)
    lam = LN2/f(ai.Thalf_hrs); lp = LN2/f(ai.Thalf_parent); t = f(exposure)
    effXS = f(ai.thermalXS_parent) + erf*f(ai.resonance_parent)
    k1 = flux*initialXS*f('1e-24')*3600; k2 = f(env.fluence)*f('1e-24')*3600*effXS; a2 = k2+lp; a3 = lam
    terms = [mp.exp(-k1*t)/((a2-k1)*(a3-k1)), mp.exp(-a2*t)/((k1-a2)*(a3-a2)), mp.exp(-a3*t)/((k1-a3)*(a2-a3))]
    return sum(abs(x) for x in terms)/abs(sum(terms))
ratios = []; n=0; over=0
for trial in range(300):
    fluence = 10**random.uniform(2,16); exposure = 10**random.uniform(-3,4); cd = random.choice([0,1,20,70]); fr = random.choice([0,50])
    env = A.ActivationEnvironment(fluence=fluence, Cd_ratio=cd, fast_ratio=fr)
    for iso, r in sel:
        if r.fast and fr == 0: continue
        try: g = A.activity(iso, 1.0, env, exposure, [0])[r][0]
        except Exception as e: continue
        w = ref(iso, r, 1.0, env, exposure, [0])[0]
        if abs(w) < 1e-300: continue
        err = float(abs((mp.mpf(g)-w)/w)); k = float(kappa(iso, r, env, exposure)); n+=1
        ratios.append(err/(k*2.2e-16))
        if err > 1e-5 and err > 16*k*2.2e-16: over += 1; print('UNEXPLAINED', iso, r.daughter, fluence, exposure, cd, err, k)
import numpy as np
ratios = np.array(ratios); print(n, 'max err/(eps*kappa)', ratios.max(), 'p99', np.percentile(ratios,99), 'unexplained', over)
