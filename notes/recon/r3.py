"""C03 full reference prototype: own table reader + documented equations."""
import re, math, cmath, random, bisect
import numpy as np
import periodictable as pt
from periodictable import nsf, mass as M, core, formula
from periodictable.nsf_tables import ENERGY_DEPENDENT_TABLES
from periodictable.constants import avogadro_number, electron_mass, plancks_constant, electron_volt, neutron_mass, atomic_mass_constant
def num(s):
    s = s.strip().replace('<','').replace('*','')
    if s == '': return None
    return float(re.fullmatch(r'([-+]?[0-9.]+(?:[eE][-+]?[0-9]+)?)(?:\([0-9.]+\))?', s).group(1))
REC = {}
for line in nsf.nsftable.split('\n'):
    c = line.split(','); p = c[0].split('-'); Z = int(p[0]); A = int(p[2]) if len(p)==3 else 0
    REC[(Z,A)] = dict(b_c=num(c[3]), total=num(c[9]), absorption=num(c[10]), coherent=num(c[7]), incoherent=num(c[8]))
REC[(54,0)]['total'] = REC[(54,0)]['coherent']+REC[(54,0)]['incoherent']
REC[(63,151)]['b_c'] = math.sqrt(REC[(63,151)]['coherent']/(4*math.pi/100))
# single-isotope fallback: element takes first listed isotope's record if no natural row
firstiso = {}
for (Z,A) in REC:
    if A and Z not in firstiso: firstiso[Z] = A
for Z,A in list(firstiso.items()):
    if (Z,0) not in REC: REC[(Z,0)] = REC[(Z,A)]
EF = plancks_constant**2*electron_volt/(2*neutron_mass*atomic_mass_constant)*1e23
ETAB = {}
for (sym, A), vals in ENERGY_DEPENDENT_TABLES.items():
    Z = pt.elements.symbol(sym).number
    pts = sorted((math.sqrt(EF/(E*1000)), complex(re_, im_)) for E, re_, im_, _ in vals)
    ETAB[(Z, A or 0)] = pts
# natural Lu: mix
ab = {175: pt.Lu[175].abundance, 176: pt.Lu[176].abundance}
b175 = REC[(71,175)]['b_c'] - 1j*REC[(71,175)]['absorption']/(2000*1.798)
ETAB[(71,0)] = [(w, (b175*ab[175] + b*ab[176])/100) for w,b in ETAB[(71,176)]]
def interp(pts, w):
    if w <= pts[0][0]: return pts[0][1]
    if w >= pts[-1][0]: return pts[-1][1]
    xs = [p[0] for p in pts]; j = bisect.bisect_right(xs, w)-1
    (w0,b0),(w1,b1) = pts[j], pts[j+1]; t = (w-w0)/(w1-w0)
    return complex(b0.real+t*(b1.real-b0.real), b0.imag+t*(b1.imag-b0.imag))
def atom_bs(k, w):
    Z,A,q = k
    if (Z,A) in ETAB:
        b = interp(ETAB[(Z,A)], w); return b, 4*math.pi/100*abs(b)**2
    r = REC[(Z,A)]
    return complex(r['b_c'], -r['absorption']/(2000*1.798)), r['total']
def mass_of(k):
    Z,A,q = k; base = pt.elements[Z][A] if A else pt.elements[Z]
    return base.mass - q*electron_mass
def ref(comp, rho, w):
    N = sum(comp.values()); Mm = sum(n*mass_of(k) for k,n in comp.items())
    b = sum(n*atom_bs(k,w)[0] for k,n in comp.items())/N; ss = sum(n*atom_bs(k,w)[1] for k,n in comp.items())/N
    nd = N/((Mm/rho)/avogadro_number*1e24)
    sc = 4*math.pi/100*abs(b)**2; si = max(ss-sc, 0); bi = math.sqrt(si/(4*math.pi/100)); sa = 2000*abs(b.imag)*w
    return (10*nd*b.real, abs(10*nd*b.imag), 10*nd*bi, nd*sc, nd*sa, nd*si, 1/(nd*sa+nd*ss))
def key(a): return (a.number, a.isotope if core.isisotope(a) else 0, a.charge)
rng = random.Random(1)
atoms = [a for e in pt.elements for a in [e]+list(e) if a.neutron.has_sld()]
atoms += [e.ion[q] for e in pt.elements if e.neutron.has_sld() for q in e.ions[:2]]
worst = 0; n = 0; bad = []
def cmp(got, exp):
    global worst
    got = [float(np.asarray(x)) for x in (*got[0], *got[1], got[2])]
    scale_sld = abs(exp[0])+exp[1]; scale_xs = exp[3]+exp[4]+exp[5]
    for i,(g,e) in enumerate(zip(got, exp)):
        d = abs(g-e)
        if i == 2 and d <= 1e-7*scale_sld: continue
        if i == 5 and d <= 1e-13*scale_xs: continue
        r = d/max(abs(e),1e-300); worst = max(worst, r)
        if r > 1e-10: bad.append((i, g, e)); 
# single atoms
for a in atoms:
    if a.density is None: continue
    for w in [0.05, 1.798, 4.75, 50]:
        k = key(a); n += 1
        cmp(pt.neutron_scattering(a, density=a.density, wavelength=w), ref({k:1}, a.density, w))
        if k[2] == 0:
            cmp(a.neutron.scattering(wavelength=w), ref({k:1}, a.density*1.0, w)) if False else None
print('single', n, worst, len(bad), bad[:3])
# element/isotope direct vs compound
w2 = 0
for a in atoms:
    if a.charge or a.density is None: continue
    for w in [0.3, 1.798, 12.]:
        g1 = a.neutron.scattering(wavelength=w); g2 = pt.neutron_scattering(a, density=a.density, wavelength=w)
        f1 = [float(np.asarray(x)) for x in (*g1[0], *g1[1], g1[2])]; f2 = [float(np.asarray(x)) for x in (*g2[0], *g2[1], g2[2])]
        w2 = max(w2, max(abs(x-y)/max(abs(y),1e-300) for i,(x,y) in enumerate(zip(f1,f2)) if not (i in (2,5) and abs(x-y) <= 1e-7*(abs(f2[0])+f2[1]))))
print('direct-vs-compound worst', w2)
# random compounds
for it in range(3000):
    comp = {}
    for _ in range(rng.randint(1,7)):
        a = rng.choice(atoms); comp[a] = comp.get(a,0) + rng.choice([1,2,3,0.5,10**rng.uniform(-3,3)])
    rho = 10**rng.uniform(-3,1.4); w = 10**rng.uniform(-1.3,1.7)
    use_nat = rng.random() < 0.3 and not any(x.charge for x in comp)
    kc = {key(a): v for a,v in comp.items()}
    if use_nat:
        Mi = sum(v*mass_of(k) for k,v in kc.items()); Mn = sum(v*mass_of((k[0],0,k[2])) for k,v in kc.items())
        got = pt.neutron_scattering(comp, natural_density=rho, wavelength=w); exp = ref(kc, rho*Mi/Mn, w)
    elif rng.random()<0.5:
        got = pt.neutron_scattering(comp, density=rho, energy=EF/w**2); exp = ref(kc, rho, w)
    else:
        got = pt.neutron_scattering(comp, density=rho, wavelength=w); exp = ref(kc, rho, w)
    n += 1; cmp(got, exp)
print('all', n, 'worst', worst, 'bad', len(bad), bad[:3])
