"""C18 oracle prototype."""
import random
import periodictable as pt
from periodictable import formula, core, fasta
from periodictable.constants import avogadro_number
from collections import Counter
rng = random.Random(18)
def key(a): return (a.number, a.isotope if core.isisotope(a) else 0, a.charge)
AMB = {'aa': {'B':'DN','J':'LI','Z':'EQ','X':'ACDEFGHIKLMNPQRSTVWY','-':''},
       'na': {'A':'A','C':'C','G':'G','T':'T','U':'T','R':'AG','Y':'CT','K':'GT','M':'AC','S':'CG','W':'AT','B':'CGT','D':'AGT','H':'ACT','V':'ACG','N':'ACGT','X':'','-':''}}
def base_tables():
    aa = {c: m for c, m in fasta.AMINO_ACID_CODES.items() if c not in AMB['aa']}
    return {'aa': aa, 'dna': fasta.DNA_BASES, 'rna': fasta.RNA_BASES}
BASE = base_tables()
def residue(typ, c):
    """(atoms per key, volume, charge) for one code, ambiguity = equal-weight average of bases"""
    amb = AMB['aa'] if typ == 'aa' else AMB['na']
    bases = amb.get(c, c) if typ == 'aa' else amb[c]
    if typ == 'aa' and c not in amb: bases = c
    atoms = {}; vol = 0; q = 0
    n = len(bases)
    for b in bases:
        m = BASE[typ][b]
        for a, cnt in m.labile_formula.atoms.items(): atoms[key(a)] = atoms.get(key(a), 0) + cnt/n
        vol += m.cell_volume/n; q += m.charge/n
    return atoms, vol, q
res = Counter(); ex = {}
def rec(kind, ok, info=None):
    res[(kind, 'ok' if ok else 'BAD')] += 1
    if not ok: ex.setdefault(kind, []).append(info)
def close(a, b, tol=1e-10): return abs(a-b) <= tol*max(1, abs(b))
for it in range(600):
    typ = rng.choice(['aa','dna','rna'])
    codes = sorted(fasta.CODE_TABLES[typ])
    L = rng.choice([0,1,2,5,20,100,400])
    seq = ''.join(rng.choice(codes) for _ in range(L))
    raw = seq
    if rng.random() < 0.5: raw = ' '.join(raw[i:i+7] for i in range(0, len(raw), 7))
    if rng.random() < 0.3: raw = raw + '*' + 'ACGT'
    S = fasta.Sequence('s', raw, type=typ)
    atoms = {}; vol = 0; q = 0
    for c in seq:
        a, v, qq = residue(typ, c)
        for k, n in a.items(): atoms[k] = atoms.get(k,0)+n
        vol += v; q += qq
    got = {key(a): n for a,n in S.labile_formula.atoms.items()}
    rec('atoms', set(got)==set(k for k,v in atoms.items() if True) and all(close(got[k], atoms[k]) for k in atoms), (typ, seq[:30], got, atoms))
    rec('volume', close(S.cell_volume, vol), (typ, seq[:30], S.cell_volume, vol)); rec('charge', close(S.charge, q), (typ, seq[:30], S.charge, q))
    rec('seq', S.sequence == seq, (raw, S.sequence))
    # masses: H form: H[1]->H ; D form: H[1]->D
    H1 = (1,1,0)
    mH = sum(n*(pt.H.mass if k == H1 else pt.elements[k[0]].mass if not k[1] else pt.elements[k[0]][k[1]].mass) for k,n in atoms.items())
    mD = sum(n*(pt.D.mass if k == H1 else pt.elements[k[0]].mass if not k[1] else pt.elements[k[0]][k[1]].mass) for k,n in atoms.items())
    rec('mass', close(S.mass, mH), (S.mass, mH)); rec('Dmass', close(S.Dmass, mD), (S.Dmass, mD))
    if vol > 0:
        rec('density', close(S.natural_formula.density, mH/avogadro_number/vol*1e24), (typ, seq[:20], S.natural_formula.density, mH/avogadro_number/vol*1e24))
    # permutation invariance
    p = list(seq); rng.shuffle(p); S2 = fasta.Sequence('p', ''.join(p), type=typ)
    rec('perm', S2.labile_formula.atoms.keys() == S.labile_formula.atoms.keys() and all(close(S2.labile_formula.atoms[a], n) for a,n in S.labile_formula.atoms.items()) and close(S2.mass, S.mass), (seq[:20],))
    # prefix
    if seq:
        f = formula(typ+':'+raw)
        rec('prefix', f == S.labile_formula, (typ, raw[:30], f, S.labile_formula))
for k in sorted(res, key=str): print(k, res[k])
for k, v in ex.items(): print(k, str(v[:2])[:600])
