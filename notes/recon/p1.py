import periodictable as pt
from periodictable import formula
def t(s, **kw):
    try:
        f = formula(s, **kw)
        print(repr(s), '->', f.structure, 'atoms', f.atoms, 'q', f.charge, 'rho', f.density)
    except Exception as e:
        print(repr(s), 'RAISES', type(e).__name__, str(e)[:100])
for s in ["CaCO3", "Ca CO3", "CaCO3+6H2O", "2CaCO3", "2 CaCO3", "Ca 2", "Ca2", "Ca[40]", "Ca [40]", "Ca{2+}", "Ca {2+}",
          "Ca[40]{2+}3", "Ca{2+}[40]", "D2O", "D[2]", "T{+}", "D{+}", "H[2]{+}", "H[2]", "H[1]{-}",
          "Xx", "X", "Uue", "Ca[39]", "Ca[1]","Ca[0]", "Ca[040]", "Ca{9+}", "Ca{0+}", "Ca{+2}", "Ca{2}", "Ca{}",
          "(CaCO3", "CaCO3)", "((H2O)2", "Ca03", "Ca0.5", "Ca.5", "Ca5.", "Ca.", "Ca0", "Ca00.5", "Ca1e3", "Ca-2",
          "H2O@1", "H2O@1n", "H2O@1i", "H2O@", "H2O@x", "H2O @1", "H2O@ 1", "H2O@1 n", "H2O@1.5.2", "H2O@0", "H2O@-1",
          "(H2O)2@1", "ca", "CA", "C a", "n", "N", "Co", "CO", "", " ", "  H2O  ", "H2O ", " H2O", "H 2 O",
          "3(H2O)", "3 (H2O)2", "(H2O)2 3", "2H2O 3NaCl", "2(H2O)3", "1.5(H2O)", "H2O+", "+H2O", "H2O++NaCl", "H2O + NaCl", "H2O+ NaCl",
          "(H2O)0.5", "(H2O).5", "()","( )", "(())", "H[1]2O", "He3", "He[3]", "Nh", "Og", "Fl", "Mc2Ts3",
          "H2O\n", "H2O\tNaCl", "H2O\nNaCl", "Fe[56]{2+}", "Fe{2+}2", "O{2-}", "O{-}", "O{1-}", "O{-1}", "O{2-}{2-}","O[16][16]",
          ]:
    t(s)
