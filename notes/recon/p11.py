import sys; sys.path.insert(0,'/verif/.deps')
import mpmath as mp
mp.mp.dps = 80
import periodictable as pt
from periodictable import activation as A
from collections import Counter
rows = []
for el in pt.elements:
    for iso in el:
        for r in getattr(iso, 'neutron_activation', []):
            rows.append((iso, r))
print(len(rows), Counter(r.reaction for _, r in rows), Counter(r.fast for _, r in rows))
LN2 = mp.log(2)
def ref(iso, ai, mass, env, exposure, rest):
    f = mp.mpf
    erf = f(1)/f(env.Cd_ratio) if env.Cd_ratio >= 1 else f(0)
    initialXS = f(ai.thermalXS) + erf*f(ai.resonance)
    flux = f(env.fluence)/f(env.fast_ratio) if ai.fast else f(env.fluence)
    root = flux*initialXS*f('1e-24')*f(mass)/f(iso.isotope)*f('1.6278e19')
    lam = LN2/f(ai.Thalf_hrs)
    t = f(exposure)
    if ai.reaction == 'b':
        lp = LN2/f(ai.Thalf_parent)
        act = root*(1 + (lam*mp.exp(-lp*t) - lp*mp.exp(-lam*t))/(lp-lam))
    elif ai.reaction == '2n':
        lp = LN2/f(ai.Thalf_parent)
        effXS = f(ai.thermalXS_parent) + erf*f(ai.resonance_parent)
        k1 = flux*initialXS*f('1e-24')*3600
        k2 = f(env.fluence)*f('1e-24')*3600*effXS
        a2 = k2+lp
        a3 = lam
        act = root*lam*k2*( mp.exp(-k1*t)/((a2-k1)*(a3-k1)) + mp.exp(-a2*t)/((k1-a2)*(a3-a2)) + mp.exp(-a3*t)/((k1-a3)*(a2-a3)))
    else:
        effXS = f(ai.thermalXS_parent) + erf*f(ai.resonance_parent)
        k1 = flux*initialXS*f('1e-24')*3600
        a2 = f(env.fluence)*effXS*f('1e-24')*3600 + lam
        act = root*lam/(a2-k1)*(mp.exp(-k1*t)-mp.exp(-a2*t))
    return [act*mp.exp(-lam*f(T)) for T in rest]
import itertools, random
random.seed(1)
worst = {}
fails = Counter()
bad = []
for fluence in [1e2, 1e5, 1e8, 1e12, 1e16]:
  for exposure in [1e-3, 1, 10, 1e4]:
    for cd, fr in [(0,0),(70,50)]:
      env = A.ActivationEnvironment(fluence=fluence, Cd_ratio=cd, fast_ratio=fr)
      for iso, r in rows:
        if r.fast and fr == 0: continue
        # isolate this row
        try:
            res = A.activity(iso, 1.0, env, exposure, [0, 10])
        except Exception as e:
            fails[(type(e).__name__, r.reaction)] += 1
            bad.append((str(iso), r.daughter, r.reaction, fluence, exposure, cd, repr(e)[:80]))
            continue
        got = res[r]
        want = ref(iso, r, 1.0, env, exposure, [0, 10])
        for g, w in zip(got, want):
            if w == 0:
                err = 0 if g == 0 else float('inf')
            else:
                err = float(abs((mp.mpf(g)-w)/w))
            key = r.reaction
            if err > worst.get(key, (0,))[0]:
                worst[key] = (err, str(iso), r.daughter, fluence, exposure, cd, g, float(w))
            if g < 0: fails[('negative', r.reaction)] += 1
            if err > 1e-9: fails[('err>1e-9', r.reaction)] += 1
            if err > 1e-6: fails[('err>1e-6', r.reaction)] += 1
            if err > 1e-2: fails[('err>1e-2', r.reaction)] += 1
print(worst)
print(fails)
print(bad[:10])
