import numpy as np
import periodictable as pt
from periodictable import xsf, formula
from periodictable.xsf import xray_sld, xray_energy, xray_wavelength, index_of_refraction, mirror_reflectivity
Fe = pt.Fe
t = Fe.xray.sftable
print(t.shape, t[0][:3], t[0][-3:], np.isnan(t[1]).sum(), np.isnan(t[2]).sum())
print(Fe.xray.scattering_factors(energy=t[0][100]), t[1][100], t[2][100])
print(Fe.xray.scattering_factors(energy=0.009), Fe.xray.scattering_factors(energy=30.0), Fe.xray.scattering_factors(energy=30.0001), Fe.xray.scattering_factors(energy=0.01))
print(Fe.xray.scattering_factors(energy=[8.0, 8.1]), Fe.xray.scattering_factors(energy=np.array([8.0])), Fe.xray.scattering_factors(wavelength=1.54))
print(Fe.xray.scattering_factors(energy=8), Fe.xray.scattering_factors(energy=np.float64(8)), )
try: print(Fe.xray.scattering_factors(energy=np.array(8.0)))
except Exception as e: print('0-d', type(e).__name__, e)
# duplicate energies at edges?
for el in pt.elements:
    tb = el.xray.sftable
    if tb is None: 
        print('no table', el); continue
    d = np.diff(tb[0])
    if (d<=0).any(): print(el, 'non-increasing energies', (d<=0).sum(), (d<0).sum())
print(xray_sld('Fe', energy=8.0), Fe.xray.sld(energy=8.0), xray_sld('Fe', wavelength=xray_wavelength(8.0)))
print(xray_sld('Fe2O3', density=5.24, energy=[8.0, 9.0]))
print(xray_sld('D2O', natural_density=1, energy=8.0), xray_sld('H2O', density=1, energy=8.0))
print(index_of_refraction('Fe', energy=8.0), index_of_refraction('Fe', wavelength=1.5498))
try: print(mirror_reflectivity('Fe', energy=8.0, angle=0.2))
except Exception as e: print('mirror scalar energy', type(e).__name__, e)
print(mirror_reflectivity('Fe', wavelength=1.5498, angle=0.2))
print(mirror_reflectivity('Fe', energy=[8.0, 9.], angle=[0.1, 0.2, 5, 90]))
print(mirror_reflectivity('Fe', energy=[8.0, 9.], angle=[0.1, 0.2, 5, 90], roughness=5))
print(mirror_reflectivity('Fe', energy=[0.05, 0.1], angle=[0.0, 0.001, 45, 90]))
# f0
print(Fe.xray.f0(0), Fe.ion[2].xray.f0(0), Fe.ion[3].xray.f0([0, 1, 24*np.pi, 24*np.pi+0.01, 100]))
try: print(Fe.ion[6].xray.f0(0))
except Exception as e: print('Fe6+', type(e).__name__, e)
from periodictable import cromermann
cromermann.getCMformula('Fe')
print(len(cromermann._cmformulas), sorted(cromermann._cmformulas)[:40])
print(pt.H.ion[-1].xray.f0(0), pt.O.ion[-1].xray.f0(0), pt.D.xray.f0(0))
try: print(pt.O.ion[-2].xray.f0(0))
except Exception as e: print('O2-', type(e).__name__, e)
print(pt.elements[0].xray.sftable, pt.elements[0].xray.sld(energy=8), pt.Pu.xray.sftable is None, pt.U.xray.sftable is None)
try: print(xray_sld('Pu', energy=8))
except Exception as e: print('Pu', type(e).__name__, e)
print(pt.Cf.xray.sld(energy=8), pt.At.xray.sld(energy=8))
