import periodictable as pt
from periodictable import activation as A
from math import exp, log
env = A.ActivationEnvironment(fluence=1e5, Cd_ratio=70, fast_ratio=50)
def total(s, t, To_index=None):
    # total activity at time t after removal computed from s.activity at rest_times[i]
    i, To = min(enumerate(s.rest_times), key=lambda x: x[1])
    return sum(Ia[i]*exp(-log(2)/a.Thalf_hrs*(t-To)) for a, Ia in s.activity.items())
def run(formula, mass, rest, targets, exposure=10):
    s = A.Sample(formula, mass)
    s.calculate_activation(env, exposure=exposure, rest_times=rest)
    A0 = total(s, 0)
    for frac in targets:
        target = A0*frac
        try:
            t = s.decay_time(target)
            at = total(s, t)
            print(formula, rest, 'A0=%.4g target=%.4g'%(A0,target), 't=%.6g'%t, 'A(t)/target=%.6g'%(at/target))
        except Exception as e:
            print(formula, rest, 'A0=%.4g target=%.4g'%(A0,target), 'RAISES', type(e).__name__, str(e)[:80])
run("Co30Fe70", 10, [0,1,24,360], [10, 1.0, 0.99, 0.75, 0.51, 0.5, 0.49, 0.1, 1e-3, 1e-6, 1e-9])
run("Co30Fe70", 10, [1,24,360], [0.75, 0.1, 1e-3])
run("Co30Fe70", 10, [2, 24], [0.75, 0.1, 1e-3])
run("Co30Fe70", 10, [24, 0], [0.1, 1e-3])
run("Co30Fe70", 10, [0.5], [0.1, 1e-3])
run("Co30Fe70", 10, [1000], [0.1, 1e-3])
run("Au", 1, [0], [0.9, 0.1, 1e-3, 1e-9])
run("NaCl", 1, [0], [0.9, 0.1, 1e-3, 1e-9])
run("H2O", 1, [0], [0.9, 0.1, 1e-3, 1e-9])
run("Gd2O3", 1, [0], [0.9, 0.1, 1e-3, 1e-9])
run("Al", 1, [0], [0.9, 0.1, 1e-3, 1e-9])
run("U", 1, [0], [0.9, 0.1, 1e-3, 1e-9])
s = A.Sample("He", 1); s.calculate_activation(env); print(s.activity, s.decay_time(1))
