import random, math
import periodictable as pt
from periodictable import activation as A
from math import exp, log
LN2=log(2)
def fixed_decay_time(self, target):
    if not self.rest_times or not self.activity: return 0
    min_rest, To = min(enumerate(self.rest_times), key=lambda x: x[1])
    data = [(Ia[min_rest], LN2/a.Thalf_hrs) for a, Ia in self.activity.items()]
    f = lambda t: sum(Ia*exp(-La*(t-To)) for Ia, La in data) - target
    df = lambda t: sum(-La*Ia*exp(-La*(t-To)) for Ia, La in data)
    if f(0) <= 0: return 0
    initial = max(-log(target/Ia)/La + To for Ia, La in data)
    t, ft = A.find_root(initial, f, df)
    percent_error = 100*abs(ft)/target
    if percent_error > 0.1: raise RuntimeError("fail %g"%percent_error)
    return t
random.seed(5)
from collections import Counter
out = Counter(); ex = {}
syms = [e.symbol for e in pt.elements if 1 <= e.number <= 92]
for trial in range(3000):
    n = random.randint(1,3)
    f = "".join("%s%d"%(random.choice(syms), random.randint(1,5)) for _ in range(n))
    env = A.ActivationEnvironment(fluence=10**random.uniform(3,14), Cd_ratio=random.choice([0,70]), fast_ratio=random.choice([0,50]))
    s = A.Sample(f, 10**random.uniform(-3,2))
    rest = random.choice([[0],[0,1,24,360],[1,24],[0.5],[5,2],[24]])
    try: s.calculate_activation(env, exposure=10**random.uniform(-2,3), rest_times=rest)
    except Exception as e: out['calc:'+type(e).__name__]+=1; continue
    if not s.activity: out['noact']+=1; continue
    i, To = min(enumerate(rest), key=lambda x: x[1])
    tot = lambda t: sum(Ia[i]*exp(-LN2/a.Thalf_hrs*(t-To)) for a, Ia in s.activity.items())
    try: A0 = tot(0)
    except OverflowError: out['A0 overflow']+=1; continue
    if A0 <= 0: out['A0=0']+=1; continue
    target = A0*10**random.uniform(-9, 1)
    try:
        t = fixed_decay_time(s, target)
    except RuntimeError as e: k='RuntimeError'
    except Exception as e: k=type(e).__name__+':'+str(e)[:30]
    else:
        if target >= A0: k = 'zero-ok' if t == 0 else 'zero-BAD'
        elif t < 0: k = 'neg'
        else:
            r = tot(t)/target
            k = 'ok' if abs(r-1) <= 1e-3 else 'inaccurate'
    out[k]+=1; ex.setdefault(k, (f, rest, target/A0))
print(out); print(ex)
