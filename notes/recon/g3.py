import sys, random, re
sys.path.insert(0, '/verif/notes/recon')
from g1 import *
from collections import Counter
from periodictable.formulas import Formula
rng = random.Random(11)
def flat(struct):
    """normal form: splice groups with count 1; keep nesting otherwise; counts rounded to 6 sig digits"""
    out = []
    for c, frag in struct:
        c6 = float('%g'%c)
        if isinstance(frag, (list, tuple)):
            inner = flat(frag)
            if c6 == 1: out.extend(inner)
            else: out.append((c6, tuple(inner)))
        else:
            out.append((c6, key(frag)))
    return tuple(out)
res = Counter(); ex = {}
for i in range(8000):
    s, d = gen_compound(rng, 0, rng.choice([0,1,2,3]))
    try: f = formula(s)
    except Exception as e: res['gen-parse-exc']+=1; continue
    p = str(f)
    try: g = formula(p)
    except Exception as e:
        k = 'reparse-exc:'+type(e).__name__
        if re.search(r'e[+-]\d', p): k += ':exp'
        if 'D[2]' in p or 'T[3]' in p: k += ':DTion'
        res[k]+=1; ex.setdefault(k, (s, p)); continue
    a, b = flat(f.structure), flat(g.structure)
    if a == b: res['ok']+=1
    else:
        res['nest-diff']+=1; ex.setdefault('nest-diff', (s, p, a, b))
    if repr(f) != "formula('%s')"%p: res['repr-bad']+=1
print(res)
for k, v in ex.items(): print(k, str(v)[:700])
