"""C11 string forms vs call forms prototype."""
import random, math
import periodictable as pt
from periodictable import formula, mix_by_weight, mix_by_volume, core
from collections import Counter
rng = random.Random(9)
def key(a): return (a.number, a.isotope if core.isisotope(a) else 0, a.charge)
comps = ["H2O@1", "D2O@1n", "NaCl@2.16", "Fe", "Ni", "Au", "SiO2@2.2", "Fe{2+}O{2-}@5.7", "CaCO3", "Gd2O3@7.4", "Co30Fe70@8", "Si", "Cr"]
WT = ['wt%','%wt','mass%','%mass','weight%','%weight','w%','%w','m%','%m','wt %'[:3]+'%']
VOL = ['vol%','%vol','volume%','%volume','v%','%v']
MASSU = {'ng': 1e-9, 'ug': 1e-6, 'mg': 1e-3, 'g': 1.0, 'kg': 1e3}; VOLU = {'nL': 1e-9, 'uL': 1e-6, 'mL': 1e-3, 'L': 1.0}; LENU = {'nm': 1e-9, 'um': 1e-6, 'mm': 1e-3, 'cm': 1e-2}
def num(x):
    s = ('%.6f'%x).rstrip('0')
    if s.endswith('.'): s = s[:-1]
    return s if s not in ('', '0') else '0.000001'
def same(f1, f2, tol=1e-10):
    a = {key(k): v/f1.mass for k,v in f1.atoms.items()}; b = {key(k): v/f2.mass for k,v in f2.atoms.items()}
    if set(a) != set(b): return 'keys'
    e = max(abs(a[k]-b[k])/b[k] for k in b)
    if e > tol: return 'comp %g'%e
    if (f1.density is None) != (f2.density is None): return 'density-none'
    if f1.density is not None and abs(f1.density-f2.density)/f2.density > tol: return 'density %g vs %g'%(f1.density, f2.density)
    return None
res = Counter(); ex = {}
def record(kind, s, r):
    res[(kind, 'ok' if r is None else 'BAD')] += 1
    if r is not None: ex.setdefault(kind, []).append((s, r))
for it in range(1500):
    n = rng.randint(2, 4)
    cs = rng.sample(comps, n)
    # percentages
    ps = [float(num(rng.uniform(0.5, 90/n))) for _ in range(n-1)]
    rest = 100 - sum(ps)
    for mode, spell_list, mixer in [('wt', WT, mix_by_weight), ('vol', VOL, mix_by_volume)]:
        if mode == 'vol' and any(formula(c).density is None for c in cs): continue
        sp = rng.choice(spell_list); sep = rng.choice([' ', ''])
        s = ' // '.join(['%s%s%s %s'%(num(p), sep if i==0 else '', sp if i == 0 else rng.choice([sp, '%']), c) for i,(p,c) in enumerate(zip(ps, cs))] + [cs[-1]])
        try: f = formula(s)
        except Exception as e: record(mode+'%:exc:'+type(e).__name__, s, str(e)[:60]); continue
        args = [x for c,p in zip(cs, ps+[rest]) for x in (c, p)]
        record(mode+'%', s, same(f, mixer(*args)))
    # absolute mass/volume
    qs = [float(num(10**rng.uniform(-2, 2))) for _ in range(n)]
    parts = []; masses = []
    ok = True
    for c, q in zip(cs, qs):
        fc = formula(c)
        if fc.density is not None and rng.random() < 0.5:
            u = rng.choice(list(VOLU)); parts.append('%s%s%s %s'%(num(q), rng.choice(['',' ']), u, c)); masses.append(q*VOLU[u]*1000*fc.density)
        else:
            u = rng.choice(list(MASSU)); parts.append('%s%s%s %s'%(num(q), rng.choice(['',' ']), u, c)); masses.append(q*MASSU[u])
    s = ' // '.join(parts)
    try:
        f = formula(s)
        args = [x for c,m in zip(cs, masses) for x in (c, m)]
        r = same(f, mix_by_weight(*args))
        if r is None and abs(f.total_mass - sum(masses)) > 1e-12*sum(masses): r = 'total_mass %r vs %r'%(f.total_mass, sum(masses))
        record('abs', s, r)
    except Exception as e: record('abs:exc:'+type(e).__name__, s, str(e)[:60])
    # layers
    if all(formula(c).density is not None for c in cs):
        ths = []; parts = []
        for c, q in zip(cs, qs):
            u = rng.choice(list(LENU)); parts.append('%s%s%s %s'%(num(q), rng.choice(['',' ']), u, c)); ths.append(q*LENU[u])
        s = ' // '.join(parts)
        try:
            f = formula(s); args = [x for c,t in zip(cs, ths) for x in (c, t)]
            r = same(f, mix_by_volume(*args))
            if r is None and abs(f.thickness - sum(ths)) > 1e-12*sum(ths): r = 'thickness'
            record('layer', s, r)
        except Exception as e: record('layer:exc:'+type(e).__name__, s, str(e)[:60])
        # repeated group
        k = rng.randint(2,5)
        s2 = '(' + s + ')%d // %s nm Au'%(k, num(qs[0]))
        try:
            f = formula(s2); args = [x for c,t in zip(cs, ths) for x in (c, t*k)] + ['Au', qs[0]*1e-9]
            r = same(f, mix_by_volume(*args))
            record('layer-rep', s2, r)
        except Exception as e: record('layer-rep:exc:'+type(e).__name__, s2, str(e)[:60])
    # repeated mass group
    k = rng.randint(2,5)
    s2 = '(' + ' // '.join('%s g %s'%(num(q), c) for c,q in zip(cs,qs)) + ')%d // %s g Au'%(k, num(qs[0]))
    try:
        f = formula(s2); args = [x for c,q in zip(cs, qs) for x in (c, q*k)] + ['Au', float(num(qs[0]))]
        r = same(f, mix_by_weight(*args))
        if r and r.startswith('density'): r = None if f.density is None or True else r   # density of nested group differs by construction? check below
        record('mass-rep', s2, r)
    except Exception as e: record('mass-rep:exc:'+type(e).__name__, s2, str(e)[:60])
for k in sorted(res, key=str): print(k, res[k])
for k, v in ex.items(): print(k, v[:2])
