import time, re, os
import periodictable as pt
from periodictable import formula, cromermann
for depth in [5, 10, 20, 30, 50, 100, 200]:
    s = "("*depth + "H2O" + ")2"*depth
    t0=time.time()
    try:
        f = formula(s); print(depth, f.atoms, '%.3fs'%(time.time()-t0))
    except Exception as e: print(depth, type(e).__name__, str(e)[:60], '%.3fs'%(time.time()-t0))
# CM tolerance
cromermann.getCMformula('Fe')
worst = []
for sym, cm in cromermann._cmformulas.items():
    m = re.fullmatch(r'([A-Z][a-z]?)(?:(\d)([+-]))?', sym)
    if not m: print('odd symbol', sym); continue
    el = pt.elements.symbol(m.group(1)); q = int(m.group(3)+m.group(2)) if m.group(2) else 0
    worst.append((abs(cm.a.sum()+cm.c - (el.number - q)), sym, cm.a.sum()+cm.c, el.number-q))
worst.sort(reverse=True); print(worst[:8])
# which CM ions are not valid ions of the table
for sym in cromermann._cmformulas:
    m = re.fullmatch(r'([A-Z][a-z]?)(?:(\d)([+-]))?', sym)
    if m and m.group(2):
        el = pt.elements.symbol(m.group(1)); q = int(m.group(3)+m.group(2))
        if q not in el.ions: print('CM ion not in table ions', sym)
print(sum(1 for el in pt.elements for q in el.ions), )
n_has=0; n_no=0
for el in pt.elements:
    for q in el.ions:
        try: el.ion[q].xray.f0(0); n_has+=1
        except KeyError: n_no+=1
print('ions with f0', n_has, 'without', n_no)
try: print(pt.elements[0].xray.f0(0))
except Exception as e: print('n f0', type(e).__name__, e)
try: print(pt.Og.xray.f0(0))
except Exception as e: print('Og f0', type(e).__name__, e)
