import sys, random, re
sys.path.insert(0, '/verif/notes/recon')
import g1
from g1 import *
from collections import Counter
rng = random.Random(7)
def tokens(s):
    return list(re.finditer(r'[A-Z][a-z]?', s))
def malform(s, rng):
    out = []
    syms = tokens(s)
    m = rng.choice(syms)
    out.append(('unknown-symbol', s[:m.start()] + rng.choice(['Xx','Qq','Jj','Zz']) + s[m.end():]))
    # undefined isotope / charge: append to a plain element occurrence (no tag following)
    cands = [m for m in syms if (m.end() == len(s) or s[m.end()] not in '[{') and m.group(0) not in ('D','T')]
    if cands:
        m = rng.choice(cands); e = el.symbol(m.group(0))
        A = next(a for a in range(1, 400) if a not in e.isotopes)
        out.append(('undefined-isotope', s[:m.end()] + '[%d]'%A + s[m.end():]))
        q = next(q for q in [9, -9, 8, -8] if q not in e.ions)
        out.append(('undefined-charge', s[:m.end()] + '{%d%s}'%(abs(q), '+' if q>0 else '-') + s[m.end():]))
        for tag, cls in [('[]','bad-isotope-tag'),('[0]','bad-isotope-tag'),('[05]','bad-isotope-tag'),('[1.5]','bad-isotope-tag'),('[a]','bad-isotope-tag'),
                         ('{}','bad-ion-tag'),('{2}','bad-ion-tag'),('{+2}','bad-ion-tag'),('{0+}','bad-ion-tag'),('{2+-}','bad-ion-tag')]:
            out.append((cls, s[:m.end()] + tag + s[m.end():]))
        for cnt in ['0','00','03','-2','1e3']:
            # only after element with no count following
            if m.end() == len(s) or not (s[m.end()].isdigit() or s[m.end()]=='.'):
                out.append(('bad-count', s[:m.end()] + cnt + s[m.end():]))
        # '1.2.3' is malformed only at the very end of the string ('F1.2.3Ir' = 'F1.2' + '.3Ir')
        if re.search(r'[A-Za-z\]}]$', s): out.append(('bad-count', s + '1.2.3'))
    br = [i for i,c in enumerate(s) if c in '()[]{}']
    if br:
        i = rng.choice(br); out.append(('unbalanced-del', s[:i]+s[i+1:]))
        i = rng.choice(br); out.append(('unbalanced-dup', s[:i]+s[i]+s[i:]))
    for tag in ['@x','@-1','@1.2.3','@@1','@ 1','@1x','@']:
        out.append(('bad-density:'+tag, s+tag))
    return out
acc = Counter(); tot = Counter(); ex = {}
for i in range(1500):
    s, d = gen_compound(rng, 0, rng.choice([0,1,2]))
    for cls, ms in malform(s, rng):
        tot[cls]+=1
        try:
            f = formula(ms)
            acc[cls]+=1; ex.setdefault(cls, []).append((s, ms, f.structure if len(str(f.structure))<80 else '...'))
        except Exception as e:
            pass
print(tot); print('ACCEPTED', acc)
for k,v in ex.items(): print(k, v[:4])
