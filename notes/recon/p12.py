import sys; sys.path.insert(0,'/verif/.deps')
exec(open('/verif/notes/recon/p11.py').read().split("import itertools")[0])
from math import log
cases = Counter()
ex = {}
for fluence in [1e2, 1e5, 1e8, 1e12, 1e16]:
  for exposure in [1e-3, 1, 10, 1e4]:
    for cd, fr in [(0,0),(70,50)]:
      env = A.ActivationEnvironment(fluence=fluence, Cd_ratio=cd, fast_ratio=fr)
      for iso, r in rows:
        if r.fast and fr == 0: continue
        if r.reaction in ('b','2n'): continue
        try: res = A.activity(iso, 1.0, env, exposure, [0])
        except Exception as e: continue
        g = res[r][0]; w = ref(iso, r, 1.0, env, exposure, [0])[0]
        if abs(w) < 1e-300: continue
        err = float(abs((mp.mpf(g)-w)/w))
        # which branch
        erf = 1/cd if cd>=1 else 0
        initialXS = r.thermalXS + erf*r.resonance
        flux = fluence/fr if r.fast else fluence
        lam = log(2)/r.Thalf_hrs
        effXS = r.thermalXS_parent + erf*r.resonance_parent
        U = flux*initialXS*3600*1e-24*exposure
        V = (fluence*effXS*3600*1e-24+lam)*exposure
        small = abs(U)<1e-10 and abs(V)<1e-10
        b = 'small' if small else 'exp'
        lvl = 'ok' if err<1e-9 else ('1e-9..1e-6' if err<1e-6 else ('1e-6..1e-2' if err<1e-2 else '>1e-2'))
        cases[(b,lvl)] += 1
        if (b,lvl) not in ex or err > ex[(b,lvl)][0]: ex[(b,lvl)] = (err, str(iso), r.daughter, r.reaction, fluence, exposure, cd, U, V, g, float(w))
print(cases)
for k,v in ex.items(): print(k, v)
