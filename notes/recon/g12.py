"""C02 shadow-interpreter prototype."""
import random, sys
sys.path.insert(0,'/verif/notes/recon')
import numpy as np
import periodictable as pt
from periodictable import formula, core
from periodictable.constants import electron_mass
from g1 import gen_compound, key, el, SYMS
from collections import Counter
rng = random.Random(2)
def mass_of(k):
    Z,A,q = k; base = el[Z][A] if A else el[Z]
    return base.mass - q*electron_mass
def rnd_atom_obj():
    sym, a = rng.choice(SYMS)
    if not core.isisotope(a) and a.isotopes and rng.random()<0.3: a = a[rng.choice(a.isotopes)]
    if a.ions and rng.random()<0.3: a = a.ion[rng.choice(a.ions)]
    return a
def snap(f): 
    def deep(s): return tuple((c, deep(x) if isinstance(x,(list,tuple)) else id(x)) for c,x in s)
    return (deep(f.structure), f.density, f.name)
def leaf():
    while True:
        try: return leaf1()
        except TypeError: continue
def leaf1():
    r = rng.random()
    if r < 0.3:
        while True:
            s, d = gen_compound(rng, 0, rng.choice([0,1]))
            try: return formula(s), {k: float(v) for k,v in d.items()}
            except TypeError: continue
    if r < 0.5:
        a = rnd_atom_obj()
        try: return formula(a), {key(a): 1.0}
        except TypeError: return formula('H'), {(1,0,0): 1.0}
    if r < 0.75:
        d = {}
        for _ in range(rng.randint(1,4)): d[rnd_atom_obj()] = rng.choice([1,2,0.5,10**rng.uniform(-3,3)])
        return formula(d), {key(a): float(c) for a,c in d.items()}
    def seq(depth):
        out = []; m = {}
        for _ in range(rng.randint(1,3)):
            c = rng.choice([1,2,3,0.25])
            if depth < 2 and rng.random()<0.4:
                s2, m2 = seq(depth+1); out.append((c, s2))
                for k,v in m2.items(): m[k] = m.get(k,0)+c*v
            else:
                a = rnd_atom_obj(); out.append((c, a)); m[key(a)] = m.get(key(a),0)+c
        return out, m
    s, m = seq(0); return formula(s), m
res = Counter(); ex={}
def rec(kind, ok, info=None):
    res[(kind, 'ok' if ok else 'BAD')] += 1
    if not ok: ex.setdefault(kind, []).append(info)
def check(f, m, tag):
    got = {key(a): c for a,c in f.atoms.items()}
    ok = set(got) == set(m) and all(abs(got[k]-m[k]) <= 1e-12*max(abs(m[k]),1e-300) for k in m)
    rec('atoms', ok, (tag, got, m))
    M = sum(c*mass_of(k) for k,c in m.items())
    rec('mass', abs(f.mass-M) <= 1e-12*max(M,1e-300), (tag, f.mass, M))
    Q = sum(c*k[2] for k,c in m.items()); rec('charge', abs(f.charge-Q) <= 1e-12*max(1,abs(Q)), (tag, f.charge, Q))
    if M > 0:
        mf = f.mass_fraction
        rec('mf-sum', abs(sum(mf.values())-1) <= 1e-12, (tag,)); rec('mf-each', all(abs(mf[a]-m[key(a)]*mass_of(key(a))/M) <= 1e-12 for a in mf), (tag,))
for it in range(1500):
    vars_ = [leaf() for _ in range(rng.randint(2,4))]
    for step in range(rng.randint(2,8)):
        op = rng.choice(['add','mul','iadd','copy'])
        i = rng.randrange(len(vars_)); j = rng.randrange(len(vars_))
        fi, mi = vars_[i]; fj, mj = vars_[j]
        si, sj = snap(fi), snap(fj)
        if op == 'add':
            r = fi + fj; mr = dict(mi)
            for k,v in mj.items(): mr[k] = mr.get(k,0)+v
            rec('add-operands', snap(fi)==si and snap(fj)==sj and r is not fi and r is not fj, (op,))
            vars_.append((r, mr))
        elif op == 'mul':
            n = rng.choice([0, 1, 2, 0.5, np.float64(1.5), np.int64(3), 10**rng.uniform(-3,6)])
            r = n*fi; mr = {k: float(n)*v for k,v in mi.items()}
            rec('mul-operands', snap(fi)==si and r is not fi, (op, n))
            vars_.append((r, mr))
        elif op == 'iadd':
            if i == j: continue
            before = id(fi); fi += fj
            mr = dict(mi)
            for k,v in mj.items(): mr[k] = mr.get(k,0)+v
            rec('iadd', id(fi)==before and snap(fj)==sj, (op,))
            # aliasing: other variables bound to the same object must see the change (same object) - update all
            vars_ = [(f, (mr if f is fi else m)) for f,m in vars_]
        else:
            r = formula(fi); rec('copy', r is not fi and snap(fi)==si, (op,)); vars_.append((r, dict(mi)))
        f, m = vars_[-1]; check(f, m, op)
for k in sorted(res, key=str): print(k, res[k])
for k, v in ex.items(): print(k, str(v[:2])[:500])
