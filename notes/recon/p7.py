import numpy as np
import periodictable as pt
from periodictable import nsf, formula
from periodictable.nsf import neutron_scattering, neutron_sld, neutron_wavelength, neutron_energy, neutron_wavelength_from_velocity
print(neutron_energy(1.798), neutron_wavelength(25.3), neutron_wavelength_from_velocity(2200))
print(type(neutron_energy(1.798)), type(neutron_wavelength(25.3)))
# energy-dependent
print([ (k) for k in __import__('periodictable.nsf_tables',fromlist=['x']).ENERGY_DEPENDENT_TABLES.keys()])
Gd = pt.Gd
print(Gd.neutron.nsf_table[0][:3], Gd.neutron.nsf_table[0][-3:], Gd.neutron.b_c_complex, Gd.neutron.total)
for wl in [0.01, 0.05, 1.798, 5, 50, 1000]:
    print(wl, Gd.neutron.scattering_by_wavelength(wl))
print(neutron_scattering('Gd2O3', density=7.4, wavelength=1.798))
print(neutron_scattering('Gd2O3', density=7.4, wavelength=[1.798, 4.0]))
print(neutron_scattering('H2O', density=1, wavelength=[1.798, 4.0]))
print(neutron_scattering('H2O', density=1, wavelength=np.array([1.798])))
print(neutron_scattering('H2O', density=1, energy=25.3))
print(neutron_scattering('H2O', density=1, energy=[25.3, 5]))
# element vs one-atom compound
print(pt.Fe.neutron.scattering(wavelength=2.0)); print(neutron_scattering('Fe', wavelength=2.0))
print(pt.Fe[56].neutron.scattering(wavelength=2.0)); print(neutron_scattering('Fe[56]', wavelength=2.0))
print(pt.Gd[155].neutron.scattering(wavelength=2.0)); print(neutron_scattering('Gd[155]', wavelength=2.0))
print(pt.Fe.ion[2].neutron.scattering(wavelength=2.0)); print(neutron_scattering('Fe{2+}', wavelength=2.0))
# no data
print(neutron_scattering('AtH', density=1)); print(pt.At.neutron.has_sld(), pt.At.neutron.b_c)
print([str(e) for e in pt.elements if not e.neutron.has_sld()])
print(sum(1 for e in pt.elements if e.neutron.has_sld()), sum(1 for e in pt.elements for i in e if i.neutron.has_sld()))
# isotopes with has_sld that inherit? iso.neutron for isotopes not in table
print(pt.Fe[55].neutron.b_c, pt.Fe[55].neutron.has_sld(), 'neutron' in pt.Fe[55].__dict__)
# density zero / empty
print(neutron_scattering('', density=1), neutron_scattering('H2O', density=0))
# natural_density
print(neutron_sld('D2O', natural_density=1, wavelength=4.75), neutron_sld('D2O@1n', wavelength=4.75))
